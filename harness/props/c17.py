"""C17 — charges form an abelian group with parity; sector enumeration is exact.

Three-way comparison on every case:
  real symmray (`sr.get_symmetry(name)`, `AbelianArray.gen_valid_sectors/is_valid_sector`)
  vs. an independent brute-force Python oracle written here (componentwise modular sums; the
      full charge product filtered by the signed sum)
  vs. the Lean model (`Sym.valid/combine/sign/parity`, `Arr.genValidSectors/isValidSector`)
      about which `SymmModel.C17.*` is proved.
real ≠ oracle  → violation with a small replay case;  real = oracle ≠ Lean → correspondence broken.
"""

import itertools
import json
import random

from .. import core

ID = "C17"
LEVEL = "proof"
PROPS_MODULE = "SymmModel.Props.C17"
_T = "SymmModel.C17."
THEOREMS = [
    _T + n
    for n in (
        "combine_nil",
        "combine_singleton",
        "combine_append",
        "combine_perm",
        "combine_valid",
        "sign_valid",
        "combine_sign_cancel",
        "sign_sign",
        "sign_false",
        "combine_comm",
        "combine_assoc",
        "combine_zero_left",
        "combine_zero_right",
        "parity_combine",
        "parity_combine_pair",
        "parity_zero",
        "parity_sign",
        "isValidSector_iff",
        "genValidSectors_exact",
        "genValidSectors_exact_forall₂",
        "genValidSectors_nodup",
        "combine_singleton_needs_valid",
        "sign_sign_needs_valid",
        "genValidSectors_exact_needs_valid_charge",
        "genValidSectors_exact_needs_valid_index_charges",
        "genValidSectors_nodup_needs_nodup",
    )
]
LEAN_FILES = [
    "SymmModel.Props.C17",
    "SymmModel.Proofs.SymLemmas",
    "SymmModel.Driver.SymH",
    "SymmModel.Model.Sym",
    "SymmModel.Model.Basic",
    "SymmModel.Model.Index",
    "SymmModel.Model.Arr",
]
RULE = (
    "group part: every argument list of length <=4 over the whole finite groups Z2, Z4, Z2Z2 and over "
    "the U1 box [-6,6]; U1U1 box squared exhaustively for length <=2 and sampled for length 3,4; random "
    "64-bit-range integers for U1/U1U1; valid() also on non-members. A combine case is non-trivial when "
    "the list has >=2 entries that are not all the identity. "
    "sector part: arrays with <=3 (quick) / <=4 (thorough) indices, every dualness pattern, every total "
    "charge (finite groups: all; U1: -3..3; U1U1: {-1,0,1}^2), every non-empty subset of the per-symmetry "
    "charge set on each index (full 4-element set up to 3 indices; for 4 indices a 3-element set plus random "
    "full-set samples; wide-range and 64-bit samples for U1/U1U1), generic, static and fermionic classes. "
    "A sector case is non-trivial when the charge product contains both an accepted and a rejected tuple."
        '; is_valid_sector also probed on arrays that store blocks under every key (valid or not)')
ANCHORS = {
    "symmetries.py": ["Z2", "Z4", "U1", "Z2Z2", "U1U1", "get_symmetry", "sign_scalar", "sign_tuple"],
    "abelian_core.py": ["gen_valid_sectors", "is_valid_sector"],
}
ASSUMPTIONS = [
    "charges are Python ints (Z2, Z4, U1) or 2-tuples of ints (Z2Z2, U1U1); the model pairs (c,0)/(c0,c1) "
    "correspond to them; valid() on other Python types is only probed against the oracle",
    "the theorems need every index charge and the total charge to be valid for the symmetry "
    "(counterexamples without it are proved in Props/C17.lean and reproduced on the real code as a note) "
    "and index charge lists without duplicates (Python: dict keys)",
    "generation order of gen_valid_sectors is not part of the property: sectors are compared as sorted lists",
]

SYMS = ["Z2", "Z4", "U1", "Z2Z2", "U1U1"]
MOD = {"Z2": (2,), "Z4": (4,), "U1": (0,), "Z2Z2": (2, 2), "U1U1": (0, 0)}
MODPATH = "harness.props.c17"


# ------------------------------------------------------------------ independent oracle


def comps(sym, c):
    return (c,) if len(MOD[sym]) == 1 else tuple(c)


def mk(sym, v):
    return v[0] if len(MOD[sym]) == 1 else tuple(v)


def red(x, m):
    return x % m if m else x


def o_combine(sym, cs):
    tot = [0] * len(MOD[sym])
    for c in cs:
        for k, x in enumerate(comps(sym, c)):
            tot[k] += x
    return mk(sym, [red(t, m) for t, m in zip(tot, MOD[sym])])


def o_neg(sym, c):
    return mk(sym, [red(-x, m) for x, m in zip(comps(sym, c), MOD[sym])])


def o_sign(sym, c, dual):
    return o_neg(sym, c) if dual else c


def o_parity(sym, c):
    return sum(comps(sym, c)) % 2


def _is_int(x):
    return isinstance(x, int)


def o_valid(sym, c):
    n = len(MOD[sym])
    if n == 1:
        if not _is_int(c):
            return False
        v = (c,)
    else:
        if not (isinstance(c, tuple) and len(c) == 2 and all(_is_int(x) for x in c)):
            return False
        v = c
    return all((m == 0) or (0 <= x < m) for x, m in zip(v, MOD[sym]))


def o_sector_charge(sym, sec, duals):
    return o_combine(sym, [o_sign(sym, c, d) for c, d in zip(sec, duals)])


def same(a, b):
    """equal as charges: same value and same shape (int vs tuple)"""
    return isinstance(a, tuple) == isinstance(b, tuple) and a == b


def enc(sym, c):
    v = comps(sym, c)
    return [int(v[0]), int(v[1]) if len(v) > 1 else 0]


def dec(sym, j):
    if len(MOD[sym]) == 1:
        return int(j[0]) if j[1] == 0 else ("bad-second-component", j)
    return (int(j[0]), int(j[1]))


# ------------------------------------------------------------------ domains

BOX = list(range(-6, 7))


def domain(sym):
    if sym == "Z2":
        return [0, 1]
    if sym == "Z4":
        return [0, 1, 2, 3]
    if sym == "Z2Z2":
        return [(a, b) for a in (0, 1) for b in (0, 1)]
    if sym == "U1":
        return list(BOX)
    return [(a, b) for a in BOX for b in BOX]


def nonmembers(sym):
    """things that are not charges of `sym` (same Python shape, out of range; wrong scalar type)"""
    if sym == "Z2":
        return [-2, -1, 2, 3, 4, 5, 0.5]
    if sym == "Z4":
        return [-2, -1, 4, 5, 6, 7, 8, 0.5]
    if sym == "U1":
        return [0.5, -1.5]
    if sym == "Z2Z2":
        return [(0, 2), (2, 0), (-1, 0), (0, -1), (2, 2), (1, 3), (3, 1), (0.5, 0), (0, 0.5)]
    return [(0.5, 0), (0, 0.5), (1, -1.5)]


def lean_probe_ints(sym):
    """integer (non-)members whose validity is also compared with the Lean model"""
    if sym in ("Z2", "Z4"):
        return list(range(-3, 9))
    if sym == "Z2Z2":
        return [(a, b) for a in range(-1, 4) for b in range(-1, 4)]
    return []


def big_int(rng):
    k = rng.random()
    if k < 0.6:
        return rng.randint(-(2**63), 2**63 - 1)
    if k < 0.8:
        return rng.choice([2**63 - 1, -(2**63), 2**64 - 1, -(2**64), 2**64, 2**63, 2**31, -(2**31) - 1]) + rng.randint(-2, 2)
    return rng.randint(-(2**70), 2**70)


def group_chunks(tier):
    """list of chunk specs (sym, kind, param)"""
    ch = []
    for sym in ("Z2", "Z4", "Z2Z2"):
        ch.append((sym, "all", None))
    for first in BOX:
        ch.append(("U1", "prefix", first))
        ch.append(("U1U1", "pairs", first))
    nsamp = 16 if tier == "quick" else 48
    per = 1500 if tier == "quick" else 6000
    for k in range(nsamp):
        ch.append(("U1U1", "sample", (k, per)))
    nb = 4 if tier == "quick" else 16
    perb = 1000 if tier == "quick" else 3000
    for k in range(nb):
        ch.append(("U1", "big", (k, perb)))
        ch.append(("U1U1", "big", (k, perb)))
    return ch


def group_lists(sym, kind, param, seed):
    """(arglists, do_elements, do_nonmembers)"""
    dom = domain(sym)
    if kind == "all":
        ls = [()]
        for n in range(1, 5):
            ls.extend(itertools.product(dom, repeat=n))
        return ls, dom, True
    if kind == "prefix":
        ls = [()] if param == BOX[0] else []
        for n in range(0, 4):
            ls.extend((param,) + t for t in itertools.product(dom, repeat=n))
        return ls, [param], param == BOX[0]
    if kind == "pairs":
        firsts = [c for c in dom if c[0] == param]
        ls = [()] if param == BOX[0] else []
        ls.extend((f,) for f in firsts)
        ls.extend((f, g) for f in firsts for g in dom)
        return ls, firsts, param == BOX[0]
    rng = random.Random(f"C17-{seed}-{sym}-{kind}-{param[0]}")
    n = param[1]
    if kind == "sample":
        ls = [tuple(rng.choice(dom) for _ in range(rng.choice((3, 3, 4, 4, 4)))) for _ in range(n)]
        return ls, [], False
    # big
    if sym == "U1":
        mkc = lambda: big_int(rng)  # noqa: E731
    else:
        mkc = lambda: (big_int(rng), big_int(rng))  # noqa: E731
    ls = [tuple(mkc() for _ in range(rng.randint(1, 4))) for _ in range(n)]
    elems = [xs[0] for xs in ls[: n // 4]]
    return ls, elems, False


# ------------------------------------------------------------------ group worker


class _Res:
    def __init__(self):
        self.evals = 0
        self.nontrivial = 0
        self.stats = {}
        self.viols = []
        self.broken = []
        self.samples = []
        self.lean_err = None
        self.lean_checked = 0
        self.disagreements_checked = 0
        self.monitors = 0

    def stat(self, k, n=1):
        self.stats[k] = self.stats.get(k, 0) + n

    def viol(self, what, case, triggers, size):
        if len(self.viols) < 6:
            self.viols.append(dict(what=what, case=case, triggers=sorted(triggers), size=size))
        self.stat("violating_cases")

    def pack(self):
        return self.__dict__


def _call(f, *a):
    try:
        return ("ok", f(*a))
    except Exception as e:  # a group operation raising on valid charges is itself a failure
        return ("raise", f"{type(e).__name__}: {e}")


def _run_lean(res, reqs):
    """reqs: list of protocol requests (without id). Returns list of responses or None."""
    for i, r in enumerate(reqs):
        r["id"] = i
    try:
        out = core.run_driver(reqs, nproc=1)
    except Exception as e:  # noqa
        res.lean_err = f"{type(e).__name__}: {e}"
        return None
    rs = []
    for i in range(len(reqs)):
        o = out.get(i)
        if o is None or "bad" in o:
            res.lean_err = f"driver answer {o!r} to {json.dumps(reqs[i])[:300]}"
            return None
        rs.append(o)
    return rs


def group_worker(sym, kind, param, seed, use_lean):
    import symmray as sr

    res = _Res()
    S = sr.get_symmetry(sym)
    lists, elems, do_non = group_lists(sym, kind, param, seed)
    zero_o = o_combine(sym, ())
    lean_q = []  # (query, expected-from-real, description)

    def gcase(fn, args, got, expected, law):
        return dict(part="group", sym=sym, fn=fn, args=[enc_any(a) for a in args], got=repr(got),
                    expected=repr(expected), law=law)

    def bad(fn, args, got, expected, law):
        res.viol(f"{sym}.{law} fails", gcase(fn, args, got, expected, law), {f"sym:{sym}", f"law:{law}"},
                 size=(len(args), sum(abs(x) for a in args for x in _flat(a))))

    # -- identity / registry
    if do_non:
        res.evals += 1
        if S.__class__.__name__ != sym or not (sr.get_symmetry(S) == S):
            bad("get_symmetry", [], S, sym, "registry")
        st, z = _call(S.combine)
        if st != "ok" or not same(z, zero_o):
            bad("combine", [], z, zero_o, "identity")
        if _call(S.valid) != ("ok", True):
            bad("valid", [], _call(S.valid), True, "valid-empty")
        for c in nonmembers(sym):
            res.evals += 1
            st, v = _call(S.valid, c)
            if st != "ok" or bool(v) is not False or o_valid(sym, c):
                bad("valid", [c], v, False, "valid-rejects-nonmember")
            good = domain(sym)[-1]
            st, v = _call(S.valid, good, c)
            if st != "ok" or bool(v) is not False:
                bad("valid", [good, c], v, False, "valid-rejects-nonmember")
        st, v = _call(S.valid, *domain(sym)[:50])
        if st != "ok" or bool(v) is not True:
            bad("valid", domain(sym)[:50], v, True, "valid-accepts-members")
        for c in lean_probe_ints(sym):
            st, v = _call(S.valid, c)
            if st != "ok" or bool(v) != o_valid(sym, c):
                bad("valid", [c], v, o_valid(sym, c), "valid")
            lean_q.append((["valid", enc(sym, c)], bool(v) if st == "ok" else None, ("valid", [c])))

    # -- per-element laws
    for c in elems:
        res.evals += 1
        res.stat(f"group:{sym}:elements")
        st, v = _call(S.valid, c)
        if st != "ok" or bool(v) is not True:
            bad("valid", [c], v, True, "valid")
        lean_q.append((["valid", enc(sym, c)], True, ("valid", [c])))
        st, n = _call(S.sign, c, True)
        on = o_neg(sym, c)
        if st != "ok" or not same(n, on):
            bad("sign", [c], n, on, "sign")
            continue
        lean_q.append((["sign", enc(sym, c), True], n, ("sign", [c])))
        if _call(S.sign, c) != ("ok", n):
            bad("sign", [c], _call(S.sign, c), n, "sign-default-dual")
        st, f = _call(S.sign, c, False)
        if st != "ok" or not same(f, c):
            bad("sign", [c], f, c, "sign_false")
        lean_q.append((["sign", enc(sym, c), False], c, ("sign_false", [c])))
        if _call(S.valid, n) != ("ok", True):
            bad("sign", [c], n, "a valid charge", "sign_valid")
        st, z = _call(S.combine, c, n)
        if st != "ok" or not same(z, zero_o):
            bad("combine", [c, n], z, zero_o, "inverse-cancels")
        st, z = _call(S.combine, n, c)
        if st != "ok" or not same(z, zero_o):
            bad("combine", [n, c], z, zero_o, "inverse-cancels")
        st, nn = _call(S.sign, n, True)
        if st != "ok" or not same(nn, c):
            bad("sign", [n], nn, c, "sign_sign")
        st, p = _call(S.parity, c)
        if st != "ok" or p not in (0, 1) or int(p) != o_parity(sym, c):
            bad("parity", [c], p, o_parity(sym, c), "parity")
        else:
            lean_q.append((["parity", enc(sym, c)], int(p), ("parity", [c])))
        st, pn = _call(S.parity, n)
        if st != "ok" or pn != p:
            bad("parity", [n], pn, p, "parity_sign")
        for args in ((c,), (zero_o, c), (c, zero_o)):
            st, r = _call(S.combine, *args)
            if st != "ok" or not same(r, c):
                bad("combine", list(args), r, c, "identity")

    # -- n-ary combine: value, closure, parity, associativity, commutativity
    for xs in lists:
        res.evals += 1
        n = len(xs)
        res.stat(f"group:{sym}:combine-len{n}")
        st, r = _call(S.combine, *xs)
        o = o_combine(sym, xs)
        if st != "ok" or not same(r, o):
            bad("combine", xs, r, o, "combine")
            continue
        if n >= 2 and any(not same(c, zero_o) for c in xs):
            res.nontrivial += 1
        lean_q.append((["combine", [enc(sym, c) for c in xs]], r, ("combine", xs)))
        if _call(S.valid, r) != ("ok", True):
            bad("combine", xs, r, "a valid charge", "closure")
        try:
            ps = [S.parity(c) for c in xs]
            if S.parity(r) != sum(ps) % 2:
                bad("parity", xs, S.parity(r), sum(ps) % 2, "parity-homomorphism")
            for k in range(1, n):
                g = S.combine(S.combine(*xs[:k]), S.combine(*xs[k:]))
                if not same(g, r):
                    bad("combine", xs, g, r, f"associativity(split {k})")
            if n == 3:
                a, b, c = xs
                g1 = S.combine(a, S.combine(b, c))
                g2 = S.combine(S.combine(a, b), c)
                if not (same(g1, r) and same(g2, r)):
                    bad("combine", xs, (g1, g2), r, "associativity")
            if n >= 2:
                perms = itertools.permutations(xs) if n <= 3 else (xs[::-1], xs[1:] + xs[:1], xs[2:] + xs[:2],
                                                                   (xs[1], xs[0]) + xs[2:])
                for p in perms:
                    g = S.combine(*p)
                    if not same(g, r):
                        bad("combine", list(p), g, r, "commutativity")
                        break
            res.monitors += 1
        except Exception as e:  # noqa
            bad("combine", xs, f"{type(e).__name__}: {e}", r, "raises")

    if len(res.samples) < 2 and lists:
        xs = lists[len(lists) // 2]
        res.samples.append(dict(part="group", sym=sym, fn="combine", args=[enc(sym, c) for c in xs],
                                result=repr(o_combine(sym, xs))))

    # -- Lean
    if use_lean and lean_q:
        B = 3000
        reqs = [dict(kind="sym", sym=sym, qs=[q for q, _, _ in lean_q[i:i + B]]) for i in range(0, len(lean_q), B)]
        out = _run_lean(res, reqs)
        if out is not None:
            k = 0
            for o in out:
                for a in o["rs"]:
                    q, real, (fn, args) = lean_q[k]
                    k += 1
                    if real is None:
                        continue
                    if q[0] in ("combine", "sign"):
                        a = dec(sym, a)
                    res.lean_checked += 1
                    if a != real:
                        res.disagreements_checked += 1
                        res.broken.append((f"sym-ops model≠impl ({sym}.{fn})",
                                           f"{sym}.{fn}{tuple(args)!r}: impl={real!r} (= oracle) model={a!r}"))
    return res.pack()


def _flat(c):
    return c if isinstance(c, tuple) else (c,)


def enc_any(c):
    if isinstance(c, tuple):
        return list(c)
    return c


# ------------------------------------------------------------------ sector enumeration

FULL = {
    "Z2": [0, 1],
    "Z4": [0, 1, 2, 3],
    "U1": [-1, 0, 1, 2],
    "Z2Z2": [(0, 0), (0, 1), (1, 0), (1, 1)],
    "U1U1": [(0, 0), (1, 0), (0, -1), (-1, 2)],
}
REDUCED = {
    "Z2": [0, 1],
    "Z4": [0, 1, 2],
    "U1": [-1, 0, 2],
    "Z2Z2": [(0, 0), (0, 1), (1, 0)],
    "U1U1": [(0, 0), (1, 0), (-1, 2)],
}
TOTALS = {
    "Z2": [0, 1],
    "Z4": [0, 1, 2, 3],
    "U1": list(range(-3, 4)),
    "Z2Z2": [(0, 0), (0, 1), (1, 0), (1, 1)],
    "U1U1": [(a, b) for a in (-1, 0, 1) for b in (-1, 0, 1)],
}


def subsets(base):
    out = []
    for k in range(1, len(base) + 1):
        out.extend(itertools.combinations(base, k))
    return out


def gvs_chunks(tier):
    """(sym, ndim, kind, param) with kind 'exh' (param = (which set, k, K)) or 'rand' (param = (k, n))"""
    ch = []
    maxn = 3 if tier == "quick" else 4
    full_upto = 3
    for sym in SYMS:
        for nd in range(0, maxn + 1):
            if sym == "Z2" or nd <= full_upto:
                which = "full"
            else:
                which = "reduced"
            ns = len(subsets(FULL[sym] if which == "full" else REDUCED[sym]))
            N = (2 * ns) ** nd * len(TOTALS[sym])
            K = max(1, min(24, N // 6000))
            for k in range(K):
                ch.append((sym, nd, "exh", (which, k, K)))
            if which == "reduced":
                nr = 2 if tier == "quick" else 8
                per = 1000 if tier == "quick" else 2500
                for k in range(nr):
                    ch.append((sym, nd, "rand", (k, per)))
        if sym in ("U1", "U1U1"):
            for k in range(2 if tier == "quick" else 8):
                ch.append((sym, -1, "wide", (k, 1000 if tier == "quick" else 2500)))
    return ch


_CLS = {}


def array_classes(sym):
    """[(name, ctor)] generic first, then static where it exists, then fermionic ones"""
    import symmray as sr

    if sym in _CLS:
        return _CLS[sym]
    out = [("AbelianArray", lambda ind, ch: sr.AbelianArray(indices=ind, charge=ch, symmetry=sym))]
    if sym != "Z4":
        cls = getattr(sr, f"{sym}Array")
        out.append((f"{sym}Array", lambda ind, ch, cls=cls: cls(indices=ind, charge=ch)))
    S = sr.get_symmetry(sym)

    def fgen(ind, ch):
        kw = {"oddpos": 1} if S.parity(ch) else {}
        return sr.FermionicArray(indices=ind, charge=ch, symmetry=sym, **kw)

    out.append(("FermionicArray", fgen))
    if sym != "Z4":
        fcls = getattr(sr, f"{sym}FermionicArray")

        def fst(ind, ch, fcls=fcls):
            kw = {"oddpos": 1} if S.parity(ch) else {}
            return fcls(indices=ind, charge=ch, **kw)

        out.append((f"{sym}FermionicArray", fst))
    _CLS[sym] = out
    return out


def gvs_real(sym, clsname, idx, tot):
    """run the real code: (sectors as list, duplicates-free?) ; idx = [(charges tuple, dual)]"""
    import symmray as sr

    ctor = dict(array_classes(sym))[clsname]
    ind = tuple(sr.BlockIndex({c: 1 for c in cs}, dual=d) for cs, d in idx)
    arr = ctor(ind, tot)
    return arr, list(arr.gen_valid_sectors())


def gvs_brute(sym, idx, tot):
    duals = [d for _, d in idx]
    prod = list(itertools.product(*[sorted(cs) for cs, _ in idx]))
    return prod, [sec for sec in prod if o_sector_charge(sym, sec, duals) == tot]


def gvs_diff(real, brute):
    rs = set(real)
    bs = set(brute)
    t = set()
    if bs - rs:
        t.add("missing")
    if rs - bs:
        t.add("extra")
    if len(rs) != len(real):
        t.add("repeated")
    return t


def gvs_case(sym, clsname, idx, tot, real=None, brute=None):
    return dict(part="gvs", sym=sym, cls=clsname, indices=[[[enc_any(c) for c in cs], bool(d)] for cs, d in idx],
                charge=enc_any(tot),
                got=None if real is None else [[enc_any(c) for c in s] for s in real],
                expected=None if brute is None else [[enc_any(c) for c in s] for s in brute])


def gvs_cases(sym, nd, kind, param, seed):
    """yield (i, clsname index selector, idx, tot)"""
    if kind == "exh":
        which, k, K = param
        subs = subsets(FULL[sym] if which == "full" else REDUCED[sym])
        opts = [(s, d) for s in subs for d in (False, True)]
        tots = TOTALS[sym]
        N = len(opts) ** nd * len(tots)
        for i in range(k, N, K):
            j, t = divmod(i, len(tots))
            idx = []
            for _ in range(nd):
                j, r = divmod(j, len(opts))
                idx.append(opts[r])
            yield i, idx, tots[t]
        return
    rng = random.Random(f"C17-{seed}-{sym}-{nd}-{kind}-{param[0]}")
    for i in range(param[1]):
        if kind == "rand":
            n = nd
            base = FULL[sym]
            idx = [(tuple(sorted(rng.sample(base, rng.randint(1, len(base))))), rng.random() < 0.5) for _ in range(n)]
        else:  # wide: larger range and 64-bit-range integer charges for U1 / U1U1
            n = rng.randint(1, 4)
            if rng.random() < 0.5:
                pool = BOX if sym == "U1" else [(a, b) for a in range(-3, 4) for b in range(-3, 4)]
                mkc = lambda: rng.choice(pool)  # noqa: E731
            elif sym == "U1":
                mkc = lambda: big_int(rng)  # noqa: E731
            else:
                mkc = lambda: (big_int(rng), big_int(rng))  # noqa: E731
            idx = [(tuple(sorted({mkc() for _ in range(rng.randint(1, 4))})), rng.random() < 0.5) for _ in range(n)]
        if rng.random() < 0.6 and n:
            sec = [rng.choice(cs) for cs, _ in idx]
            tot = o_sector_charge(sym, sec, [d for _, d in idx])
            if kind == "wide" and rng.random() < 0.3:
                # make the last index miss the required charge sometimes
                tot = o_combine(sym, [tot, rng.choice(FULL[sym])])
        else:
            tot = rng.choice(TOTALS[sym])
        yield i, idx, tot


def gvs_worker(sym, nd, kind, param, seed, use_lean):
    import numpy as np
    import symmray as sr

    res = _Res()
    classes = array_classes(sym)
    abel = [c for c in classes if "Fermionic" not in c[0]]
    fermi = [c for c in classes if "Fermionic" in c[0]]
    ixcache = {}

    def mkix(cs, d):
        key = (cs, d)
        ix = ixcache.get(key)
        if ix is None:
            ix = ixcache[key] = sr.BlockIndex({c: 1 for c in cs}, dual=d)
        return ix

    lean_cases = []  # (request query, expected sorted sectors, expected probe flags, case descr)
    small_exh = kind == "exh" and nd <= 2
    for i, idx, tot in gvs_cases(sym, nd, kind, param, seed):
        h = (i * 2654435761) >> 5
        if small_exh:
            todo = classes
        elif h % 16 == 0:
            todo = [fermi[(h // 16) % len(fermi)]]
        else:
            todo = [abel[(h // 16) % len(abel)]]
        prod, brute = gvs_brute(sym, idx, tot)
        bset = set(brute)
        sb = sorted(brute)
        duals = [d for _, d in idx]
        nontriv = len(idx) >= 1 and 0 < len(brute) < len(prod)
        for clsname, ctor in todo:
            res.evals += 1
            res.stat(f"gvs:{sym}:ndim{len(idx)}:{kind}")
            if nontriv:
                res.nontrivial += 1
            ind = tuple(mkix(cs, d) for cs, d in idx)
            try:
                arr = ctor(ind, tot)
                if h % 8 == 5:
                    # an enumeration abandoned part way, and two enumerations advanced in lock-step, must not
                    # influence any other enumeration (each call enumerates afresh)
                    g0 = arr.gen_valid_sectors()
                    next(g0, None)
                    del g0
                    pairs = list(zip(arr.gen_valid_sectors(), arr.gen_valid_sectors()))
                    res.stat("gvs:interleaved")
                    if any(a_ != b_ for a_, b_ in pairs) or sorted(a_ for a_, _ in pairs) != sb:
                        res.viol(f"{sym} gen_valid_sectors: two enumerations advanced in lock-step interfere",
                                 gvs_case(sym, clsname, idx, tot, [a_ for a_, _ in pairs], brute),
                                 {f"sym:{sym}", "interleaved"}, size=(len(idx), sum(len(cs) for cs, _ in idx)))
                        continue
                real = list(arr.gen_valid_sectors())
            except Exception as e:  # noqa
                res.viol(f"{sym} gen_valid_sectors raises {type(e).__name__}: {e}",
                         gvs_case(sym, clsname, idx, tot, None, brute), {f"sym:{sym}", "raises"},
                         size=(len(idx), sum(len(cs) for cs, _ in idx)))
                continue
            if sorted(real) != sb:
                t = gvs_diff(real, brute)
                res.viol(f"{sym} gen_valid_sectors: {'/'.join(sorted(t))} sector(s)",
                         gvs_case(sym, clsname, idx, tot, real, brute), t | {f"sym:{sym}"},
                         size=(len(idx), sum(len(cs) for cs, _ in idx)))
                continue
            probe = None
            if len(prod) <= 36 or h % 8 == 1:
                probe = prod
                flags = []
                if h % 2 == 0 and len(prod) <= 81:
                    # the predicate is a function of (indices, charge, sector) only: it must give the same
                    # answers when the array happens to store blocks, including under non-conserving keys
                    for sec in prod:
                        arr.blocks[sec] = np.zeros((1,) * len(idx))
                    res.stat("is_valid_sector_on_stored_keys")
                for sec in prod:
                    st, v = _call(arr.is_valid_sector, sec)
                    flags.append(bool(v) if st == "ok" else None)
                    if st != "ok" or bool(v) != (sec in bset):
                        c = gvs_case(sym, clsname, idx, tot, real, brute)
                        c["is_valid_sector"] = dict(sector=[enc_any(x) for x in sec], got=repr(v), expected=sec in bset)
                        res.viol(f"{sym} is_valid_sector wrong", c, {f"sym:{sym}", "is_valid_sector"},
                                 size=(len(idx), sum(len(cs) for cs, _ in idx)))
                        probe = None
                        break
                res.monitors += 1
            if h % 32 == 3:
                # the observable use: from_fill_fn stores exactly these sectors
                try:
                    kw = {} if clsname.startswith(sym) else {"symmetry": sym}
                    if "Fermionic" in clsname and sr.get_symmetry(sym).parity(tot):
                        kw["oddpos"] = 1
                    # the constructors accept any iterable of indices
                    how = [tuple, list, iter, lambda t: (ix for ix in t)][(h // 32) % 4]
                    x = getattr(sr, clsname).from_fill_fn(lambda shape: np.zeros(shape), how(ind), tot, **kw)
                    keys = sorted(x.blocks)
                    if x.ndim != len(ind):
                        keys = f"array with {x.ndim} indices built from {len(ind)} indices given as {type(how(ind)).__name__}"
                except Exception as e:  # noqa
                    keys = f"{type(e).__name__}: {e}"
                res.stat("from_fill_fn_checked")
                if keys != sb:
                    c = gvs_case(sym, clsname, idx, tot, real, brute)
                    c["from_fill_fn_sectors"] = repr(keys)
                    res.viol(f"{sym} from_fill_fn stores the wrong sectors", c, {f"sym:{sym}", "from_fill_fn"},
                             size=(len(idx), sum(len(cs) for cs, _ in idx)))
            if use_lean and clsname == todo[0][0]:
                q = dict(indices=[[[enc(sym, c) for c in ix.charges], bool(ix.dual)] for ix in ind],
                         charge=enc(sym, tot))
                if probe is not None and len(prod) <= 81:
                    q["probe"] = [[enc(sym, c) for c in sec] for sec in probe]
                    lean_cases.append((q, sorted(real), flags, (clsname, idx, tot)))
                else:
                    lean_cases.append((q, sorted(real), None, (clsname, idx, tot)))
            if len(res.samples) < 1 and nontriv and len(idx) >= 2 and any(duals) and len(brute) >= 2:
                res.samples.append(gvs_case(sym, clsname, idx, tot, real, None))

    if use_lean and lean_cases:
        B = 400
        reqs = [dict(kind="gvs", sym=sym, qs=[c[0] for c in lean_cases[i:i + B]]) for i in range(0, len(lean_cases), B)]
        out = _run_lean(res, reqs)
        if out is not None:
            k = 0
            for o in out:
                for a in o["rs"]:
                    q, sreal, flags, (clsname, idx, tot) = lean_cases[k]
                    k += 1
                    res.lean_checked += 1
                    msec = sorted(tuple(dec(sym, c) for c in s) for s in a["sectors"])
                    if msec != sreal:
                        res.disagreements_checked += 1
                        res.broken.append((f"gen_valid_sectors model≠impl ({sym})",
                                           json.dumps(gvs_case(sym, clsname, idx, tot, sreal, msec))[:1500]
                                           + "  (got = impl = oracle, expected = model)"))
                    elif flags is not None and list(a["probe"]) != flags:
                        res.disagreements_checked += 1
                        res.broken.append((f"is_valid_sector model≠impl ({sym})",
                                           json.dumps(gvs_case(sym, clsname, idx, tot))[:1000]
                                           + f" impl={flags} model={a['probe']}"))
    return res.pack()


# ------------------------------------------------------------------ shrinking and replay


def _gvs_violates(sym, clsname, idx, tot):
    try:
        _, real = gvs_real(sym, clsname, idx, tot)
    except Exception:  # noqa
        return True
    _, brute = gvs_brute(sym, idx, tot)
    return sorted(real) != sorted(brute)


def shrink_gvs(sym, clsname, idx, tot):
    """greedy: drop charges from index tables / un-dual indices while gen_valid_sectors is still wrong"""
    idx = [(tuple(cs), bool(d)) for cs, d in idx]
    changed = True
    while changed:
        changed = False
        for k, (cs, d) in enumerate(idx):
            for c in cs:
                if len(cs) == 1:
                    break
                cand = idx[:k] + [(tuple(x for x in cs if x != c), d)] + idx[k + 1:]
                if _gvs_violates(sym, clsname, cand, tot):
                    idx = cand
                    changed = True
                    break
            if changed:
                break
            if d:
                cand = idx[:k] + [(cs, False)] + idx[k + 1:]
                if _gvs_violates(sym, clsname, cand, tot):
                    idx = cand
                    changed = True
                    break
    return idx


def _dec_any(c):
    return tuple(c) if isinstance(c, list) else c


def replay(ctx, payload):
    """re-run a recorded violating case on the real code; exit code 1 when it still fails"""
    import symmray as sr

    case = payload.get("case", payload)
    sym = case["sym"]
    if case["part"] == "gvs":
        idx = [(tuple(_dec_any(c) for c in cs), d) for cs, d in case["indices"]]
        tot = _dec_any(case["charge"])
        arr, real = gvs_real(sym, case["cls"], idx, tot)
        prod, brute = gvs_brute(sym, idx, tot)
        print(f"{case['cls']}[{sym}] indices={idx} charge={tot}")
        print(f"  gen_valid_sectors -> {real}")
        print(f"  brute force       -> {brute}")
        wrong_isv = [s for s in prod if bool(arr.is_valid_sector(s)) != (s in set(brute))]
        print(f"  is_valid_sector wrong on {wrong_isv}")
        failing = sorted(real) != sorted(brute) or bool(wrong_isv)
    else:
        S = sr.get_symmetry(sym)
        args = [_dec_any(a) for a in case["args"]]
        print(f"{sym}.{case['fn']}{tuple(args)} law={case['law']} recorded got={case['got']} expected={case['expected']}")
        fn = case["fn"]
        failing = True
        if fn == "combine":
            st, r = _call(S.combine, *args)
            print(f"  now: {r!r}; oracle {o_combine(sym, args)!r}")
            failing = st != "ok" or not same(r, o_combine(sym, args))
        elif fn == "sign" and len(args) == 1:
            st, r = _call(S.sign, args[0], True)
            print(f"  now: {r!r}; oracle {o_neg(sym, args[0])!r}")
            failing = st != "ok" or not same(r, o_neg(sym, args[0]))
        elif fn == "parity" and len(args) == 1:
            st, r = _call(S.parity, args[0])
            print(f"  now: {r!r}; oracle {o_parity(sym, args[0])!r}")
            failing = st != "ok" or r != o_parity(sym, args[0])
        elif fn == "valid" and len(args) >= 1:
            st, r = _call(S.valid, *args)
            exp = all(o_valid(sym, a) for a in args)
            print(f"  now: {r!r}; oracle {exp!r}")
            failing = st != "ok" or bool(r) != exp
    print("STILL FAILING" if failing else "no longer failing")
    return 1 if failing else 0


# ------------------------------------------------------------------ run


def _merge(ctx, packs, label):
    viols = []
    lean_err = None
    for p in packs:
        ctx.evaluations += p["evals"]
        ctx.monitors += p["monitors"]
        ctx.disagreements_checked += p["disagreements_checked"]
        for k, v in p["stats"].items():
            ctx.stat(k, v)
        ctx.stat(f"{label}:lean_compared", p["lean_checked"])
        ctx.stat(f"{label}:nontrivial", p["nontrivial"])
        for s in p["samples"]:
            ctx.sample(s, limit=3 if label == "group" else 6)
        viols.extend(p["viols"])
        for name, detail in p["broken"][:3]:
            if len(ctx.broken) < 12:
                ctx.correspondence_broken(name, detail)
        if p["lean_err"] and lean_err is None:
            lean_err = p["lean_err"]
    if lean_err:
        ctx.correspondence_broken("lean-driver", lean_err)
    return viols


def run(ctx):
    from .. import tie

    # translation tie: Lean definitions regenerated from /repo's source + equality theorems with the model
    ctx.tie = tie.run_tie(ctx, tie.FUNCTIONS["C17"])
    seed = ctx.seed
    use_lean = bool(ctx.driver_ok)
    if use_lean:
        # one probe through ctx.model so that a dead driver is reported once, in the usual way
        r = ctx.model([dict(id=0, kind="sym", sym="Z4", qs=[["zero"]])])
        use_lean = r is not None and r.get(0, {}).get("rs") == [[0, 0]]
        if r is not None and not use_lean:
            ctx.correspondence_broken("lean-driver", f"handler 'sym' not available: {r!r}")

    # ---- group operations
    gch = group_chunks(ctx.tier)
    packs = ctx.pmap(MODPATH, "group_worker", [(s, k, p, seed, use_lean) for s, k, p in gch])
    gviols = _merge(ctx, packs, "group")
    n = 0
    for p, (s, k, _) in zip(packs, gch):
        for _ in range(min(p["nontrivial"], 4000)):
            ctx.mark_nontrivial(f"g{n}")
            n += 1

    # ---- sector enumeration
    sch = gvs_chunks(ctx.tier)
    packs = ctx.pmap(MODPATH, "gvs_worker", [(s, nd, k, p, seed, use_lean) for s, nd, k, p in sch])
    sviols = _merge(ctx, packs, "gvs")
    n = 0
    for p in packs:
        for _ in range(min(p["nontrivial"], 4000)):
            ctx.mark_nontrivial(f"s{n}")
            n += 1

    # ---- verdicts: smallest cases first, one per (symmetry, failure kind)
    seen = set()
    for v in sorted(gviols, key=lambda v: v["size"]):
        key = (v["case"]["sym"], v["case"]["law"].split("(")[0])
        if key in seen or len(seen) > 8:
            continue
        seen.add(key)
        ctx.disagreements_checked += 1
        ctx.violation(v["what"], v["case"], triggers=v["triggers"], op=v["case"]["fn"],
                      detail="law checked directly on symmray.symmetries against the brute-force oracle")
    seen = set()
    for v in sorted(sviols, key=lambda v: v["size"]):
        c = v["case"]
        key = (c["sym"], tuple(v["triggers"]))
        if key in seen or len(seen) > 8:
            continue
        seen.add(key)
        ctx.disagreements_checked += 1
        if "is_valid_sector" not in c and "from_fill_fn_sectors" not in c and "raises" not in v["triggers"]:
            idx = [(tuple(_dec_any(x) for x in cs), d) for cs, d in c["indices"]]
            tot = _dec_any(c["charge"])
            try:
                idx = shrink_gvs(c["sym"], c["cls"], idx, tot)
                _, real = gvs_real(c["sym"], c["cls"], idx, tot)
                _, brute = gvs_brute(c["sym"], idx, tot)
                t = gvs_diff(real, brute)
                if t:
                    c = gvs_case(c["sym"], c["cls"], idx, tot, real, brute)
                    v = dict(v, triggers=sorted(t | {f"sym:{c['sym']}"}),
                             what=f"{c['sym']} gen_valid_sectors: {'/'.join(sorted(t))} sector(s)")
            except Exception:  # noqa
                pass
        ctx.violation(v["what"], c, triggers=v["triggers"], op="gen_valid_sectors",
                      detail="got = list(arr.gen_valid_sectors()); expected = full charge product filtered by the signed sum")

    # ---- out-of-scope corner proved in Lean (needs_valid_charge): reproduce as a note only
    try:
        arr, real = gvs_real("Z2", "Z2Array", [((0,), False)], 2)
        ctx.notes.append(
            "out of scope (invalid total charge, theorem genValidSectors_exact_needs_valid_charge): "
            f"Z2Array(indices=[{{0}}], charge=2).gen_valid_sectors() = {real}, is_valid_sector((0,)) = "
            f"{arr.is_valid_sector((0,))}")
    except Exception as e:  # noqa
        ctx.notes.append(f"invalid-charge corner not reproducible: {e}")
    ctx.notes.append(
        "exhaustive: all argument lists of length <=4 over Z2, Z4, Z2Z2 and the U1 box [-6,6]; U1U1 box^2 for "
        "length <=2 (length 3,4 sampled); sector enumeration over every (subset, dual) per index and every total "
        "charge for the chunks of kind 'exh' (see distribution)")
    ctx.exhaustive = ctx.tier == "thorough"
    if not use_lean:
        ctx.notes.append("Lean driver unavailable: direct oracles only")


if __name__ == "__main__":
    import sys

    sys.exit(core.main(sys.modules[__name__]))
