"""C09 — Lazily tracked fermionic signs are unobservable."""

import random

import numpy as np

from .. import gen, impl, oracle, progs, ser, stream

ID = "C09"
LEVEL = "proof"
PROPS_MODULE = "SymmModel.Props.C09All"
THEOREMS = [
    "SymmModel.C09.obsEq_iff",
    "SymmModel.C09.obsEq_refl",
    "SymmModel.C09.obsEq_symm",
    "SymmModel.C09.obsEq_trans",
    "SymmModel.C09.toDense_congr",
    "SymmModel.C09.full_of_valid",
    "SymmModel.C09.signOk_of_valid",
    "SymmModel.C09.phaseSync_elem",
    "SymmModel.C09.phaseSync_phases",
    "SymmModel.C09.phaseSync_idem",
    "SymmModel.C09.phaseSync_obsEq",
    "SymmModel.C09.toDense_sync",
    "SymmModel.C09.phaseFlip_elem",
    "SymmModel.C09.phaseTranspose_elem",
    "SymmModel.C09.phaseGlobal_elem",
    "SymmModel.C09.phaseSector_elem",
    "SymmModel.C09.conjF_elem",
    "SymmModel.C09.signs_applied_once",
    "SymmModel.C09.transposeF_elem_block",
    "SymmModel.C09.transposeF_elem",
    "SymmModel.C09.multiplyDiagonal_elem",
    "SymmModel.C09.phaseFlip_congr",
    "SymmModel.C09.phaseTranspose_congr",
    "SymmModel.C09.phaseGlobal_congr",
    "SymmModel.C09.phaseSector_congr",
    "SymmModel.C09.phaseSync_congr",
    "SymmModel.C09.neg_congr",
    "SymmModel.C09.mapVals_congr",
    "SymmModel.C09.smul_congr",
    "SymmModel.C09.conjF_congr",
    "SymmModel.C09.daggerF_congr",
    "SymmModel.C09.transposeF_congr",
    "SymmModel.C09.multiplyDiagonal_congr",
    "SymmModel.C09.phaseSync_canonical",
    "SymmModel.C09.binaryBlockwise_congr",
    "SymmModel.C09.tensordotF_congr",
    "SymmModel.C09.matmulF_congr",
    "SymmModel.C09.traceF_congr",
    "SymmModel.C09.einsumF_congr",
    "SymmModel.C09.fuseF_congr",
    "SymmModel.C09.unfuseF_congr",
    "SymmModel.C09.toDenseF_congr",
    "SymmModel.C09.tensordotF_sync",
    "SymmModel.C09.SOp.congr_obsEq",
    "SymmModel.C09.Prog.lazy_unobservable",
    "SymmModel.C09.Prog.sync_first",
    "SymmModel.C09.Prog.lazy_unobservable_dense",
    "SymmModel.C09.exA_full",
    "SymmModel.C09.exA_signOk",
    "SymmModel.C09.phaseFlip_elem_needs_pm",
    "SymmModel.C09.phaseGlobal_elem_needs_distinct",
    "SymmModel.C09.mapVals_congr_needs_odd",
    "SymmModel.C09.sumF_def",
    "SymmModel.C09.mapF_def",
    "SymmModel.C09.reduceF_def",
    "SymmModel.C09.reductions_sync",
    "SymmModel.C09.sumF_congr",
    "SymmModel.C09.mapF_congr",
    "SymmModel.C09.reduceF_congr",
    "SymmModel.C09.syncFirst_congr",
    "SymmModel.C09.mapF_elem",
    "SymmModel.C09.sumF_dense",
    "SymmModel.C09.normSq2_congr",
    "SymmModel.C09.eighA_sync",
    "SymmModel.C09.eighA_congr",
    "SymmModel.C09.solveA_sync",
    "SymmModel.C09.solveA_congr",
    "SymmModel.C09.svdVals_sync",
    "SymmModel.C09.svdVals_congr",
    "SymmModel.C09.qr_recon_sync",
    "SymmModel.C09.svd_recon_sync",
    "SymmModel.C09.exceptRel_iff",
    "SymmModel.C09.squeeze_congr",
    "SymmModel.C09.squeeze_sync",
    "SymmModel.C09.inTables_of_valid",
    "SymmModel.C09.expandDims_congr",
    "SymmModel.C09.fuseF_congr_all",
    "SymmModel.C09.einsumF_eq",
    "SymmModel.C09.einsumF_refines_graded",
    "SymmModel.C09.transposedElem_inBox",
    "SymmModel.C09.Op2.congr_obsEq",
    "SymmModel.C09.Prog.lazy_unobservable_all",
    "SymmModel.C09.exS_stOk",
    "SymmModel.C09.squeeze_ignores_stale_key",
    "SymmModel.C09.squeeze_congr_any_phases",
    "SymmModel.C09.squeeze_sync_any_phases",
    "SymmModel.C09.secInTables_of_valid",
    "SymmModel.C09.squeeze_congr_of_valid",
    "SymmModel.C09.squeeze_sync_of_valid",
    "SymmModel.C09.squeeze_elem_ignores_stale"
]
LEAN_FILES = ["SymmModel.Props.C09", "SymmModel.Proofs.LazyLemmas", "SymmModel.Props.C09b", "SymmModel.Props.C09All", "SymmModel.Proofs.LazyMore"]
PLANNED = []
RULE = ("random fermionic programs (length <= 5) over arrays whose pending-sign tables come from sequences of "
        "transpose / phase_flip / phase_transpose / phase_global / conj; each program is run on the real code as "
        "is and with phase_sync() applied to every operand and after every step; all step results and terminal "
        "observations (to_dense, sum, norm, abs, max, min, trace, singular values, eigh reconstruction) must agree, "
        "and agree with the Lean model. non-trivial: the pending table is non-empty at some observed operation"
        '; solve(A, b) with pending signs on b and A vs their synchronised copies; arrays derived from a lazily signed '
        'matrix (qr/svd/svd_truncated factors, sync_charges, align_axes, copy, copy_with) synchronised in place must not move the source')
ANCHORS = {"fermionic_core.py": ["phase_sync", "phase_flip", "phase_transpose", "phase_global", "transpose", "conj",
                                 "to_dense", "_binary_blockwise_op", "trace", "__matmul__", "fuse", "unfuse",
                                 "_do_reduction", "_do_unary_op"],
           "linalg.py": ["eigh_fermionic", "svd_fermionic", "qr_fermionic"]}
ASSUMPTIONS = []


def _val(x):
    import symmray as sr

    if isinstance(x, sr.AbelianArray):
        return ("arr", ser.canon_array(ser.enc_array(x)))
    if isinstance(x, sr.BlockVector):
        return ("vec", ser.canon_vec(ser.enc_vec(x)))
    return ("scalar", ser.canon_scalar(ser.enc_scalar(x)))


def _sync(x):
    import symmray as sr

    return x.phase_sync() if isinstance(x, sr.FermionicArray) else x


def terminal_observations(x):
    """things computed *from* an array; must not depend on whether signs are pending"""
    import symmray as sr

    obs = {}
    if not isinstance(x, sr.FermionicArray) or not x.blocks:
        return obs
    real = not str(x.dtype).startswith("complex")
    obs["to_dense"] = ("blk", ser.canon_blk(ser.enc_block(x.to_dense()))) if all(
        ix.chargemap for ix in x.indices) else None
    obs["sum"] = ser.canon_scalar(ser.enc_scalar(x.sum()))
    if x.ndim == 0 or (len(x.blocks) == 1 and all(ix.size_total == 1 for ix in x.indices)):
        obs["item"] = ser.canon_scalar(ser.enc_scalar(x.item()))
        obs["complex"] = ser.canon_scalar(ser.enc_scalar(complex(x)))
    v = float(x.norm()) ** 2
    obs["norm2"] = round(v) if abs(v - round(v)) <= 2e-5 * max(1.0, v) else v
    if real:
        obs["abs"] = _val(x.abs())
        obs["max"] = float(x.max())
        obs["min"] = float(x.min())
        obs["clip"] = _val(x.clip(-1, 2))
    obs["allclose_self"] = bool(x.allclose(x.copy())) and bool(x.copy().allclose(x))
    obs["allclose_neg"] = bool(x.allclose(-x))
    if x.ndim in (1, 2) and all(ix.subinfo is None for ix in x.indices):
        p = x.dagger() if x.ndim == 2 else x.conj()
        for nm, (l, r) in {"matmul_xp": (x, p), "matmul_px": (p, x)}.items():
            try:
                obs[nm] = _val(l @ r)
            except Exception as e:  # noqa
                obs[nm] = f"raised {type(e).__name__}"
    obs["neg"] = _val(-x)
    obs["x2"] = _val(x * 2)
    obs["self_add"] = _val(x + x)
    if x.ndim == 2:
        l, r = x.indices
        if l.dual != r.dual and l.chargemap == r.chargemap and l.subinfo is None and r.subinfo is None:
            obs["trace"] = ser.canon_scalar(ser.enc_scalar(x.trace()))
        try:
            u, s, vh = sr.linalg.svd(x)
            obs["svals"] = tuple(sorted(round(float(t), 6) for b in s.blocks.values() for t in np.asarray(b)))
            rec = sr.tensordot(sr.multiply_diagonal(u, s, 1), vh, 1, mode="blockwise", preserve_array=True)
            obs["svd_rec"] = np.round(oracle.dense(rec) - _embed(rec, x), 8).tolist() if False else \
                _close(rec, x)
            q, rr = sr.linalg.qr(x)
            obs["qr_rec"] = _close(sr.tensordot(q, rr, 1, mode="blockwise", preserve_array=True), x)
        except Exception as e:  # noqa
            obs["svd"] = f"raised {type(e).__name__}"
    return obs


def _close(a, b):
    """reconstruction == original, sector-wise with tolerance (float output of LAPACK)"""
    a = a.phase_sync()
    b = b.phase_sync()
    for s in set(a.blocks) | set(b.blocks):
        x = a.blocks.get(s)
        y = b.blocks.get(s)
        if x is None:
            x = np.zeros_like(y)
        if y is None:
            y = np.zeros_like(x)
        if np.shape(x) != np.shape(y) or not np.allclose(x, y, atol=1e-4 if "32" in str(np.asarray(y).dtype) else 1e-9):
            return False
    return True


def _embed(a, b):
    return 0


def hermitian_case(rng):
    """eigh of a Hermitian matrix whose signs are pending (global sign: the value -H is Hermitian too)"""
    import symmray as sr

    sym = rng.choice(gen.SYMS)
    ix = gen.rand_index(rng, sym, max_charges=3, max_size=3)
    if rng.random() < 0.5:
        ix = ix.conj()
    x = gen.rand_array(rng, sym, indices=[ix, ix.conj()], fermi=True, dtype=rng.choice(["float64", "complex128"]),
                       keep=rng.choice([0.6, 1.0]), charge=gen.py_combine(sym, []))
    for s_, b in list(x.blocks.items()):
        b = np.asarray(b)
        x.blocks[s_] = b + b.conj().T
    env = {"x": x}
    steps = [{"out": ["y"], "op": "phase_global", "in": ["x"], "params": {}}]
    res, env2 = impl.run_prog(env, steps)
    y = env2["y"]
    orc = None
    try:
        wl, vl = sr.linalg.eigh(y)
        we, ve = sr.linalg.eigh(y.phase_sync())
        el = sorted(round(float(t), 8) for b in wl.blocks.values() for t in np.asarray(b))
        ee = sorted(round(float(t), 8) for b in we.blocks.values() for t in np.asarray(b))
        if el != ee:
            orc = "eigenvalues of a lazily signed Hermitian matrix differ from those of its synchronised copy"
        else:
            rec = vl.multiply_diagonal(wl, 1) @ vl.dagger()
            if not _close(rec, y):
                orc = "eigh of a lazily signed Hermitian matrix does not reconstruct its value"
    except np.linalg.LinAlgError:
        pass
    except Exception as e:  # noqa
        orc = f"eigh on a lazily signed matrix raised {type(e).__name__}: {e}"
    case = {"kind": "prog", "env": {k: ser.enc_val(v) for k, v in env.items()}, "steps": steps}
    return dict(case=case, impl=stream.strip_py(res), oracle=orc,
                meta=dict(sym=sym, fermi=True, kind="hermitian-eigh", pending=True),
                nontrivial=True, op="eigh", triggers=[])


def solve_case(rng):
    """solve(A, b) with pending signs on b (and A), A not block diagonal in its charge labels"""
    import symmray as sr

    sym = rng.choice(gen.SYMS)
    d = rng.randint(1, 2)
    i1 = sr.BlockIndex({c: d for c in gen.rand_index(rng, sym).chargemap}, dual=rng.random() < 0.5)
    i2 = sr.BlockIndex({c: d for c in gen.rand_index(rng, sym).chargemap}, dual=rng.random() < 0.5)
    a = gen.rand_array(rng, sym, indices=[i1, i2], fermi=True, dtype="float64", keep=1.0, parity=0,
                       pending=rng.random() < 0.5)
    for s_, b in list(a.blocks.items()):
        a.blocks[s_] = np.asarray(b) + 8 * np.eye(d)
    b = gen.rand_array(rng, sym, indices=[i1], fermi=True, dtype="float64", keep=1.0, pending=True,
                       label=rng.randint(1, 9))
    env = {"a": a, "b": b}
    steps = [{"out": ["x"], "op": "solve", "in": ["a", "b"], "params": {}}]
    res, env2 = impl.run_prog(env, steps)
    orc = None
    if a.parity:
        orc = None  # odd matrices: recorded finding of C01/C11, not judged here
    elif "ok" not in res[0]:
        if not str(res[0].get("msg", "")).startswith("LinAlgError"):
            orc = f"solve raised {res[0].get('msg')}"
    else:
        try:
            xe = sr.linalg.solve(a.phase_sync(), b.phase_sync())
            if _val(env2["x"].phase_sync()) != _val(xe.phase_sync()) and not _close(env2["x"], xe):
                orc = "solve on lazily signed operands differs from solve on their synchronised copies"
        except Exception as e:  # noqa
            orc = f"solve on synchronised copies raised {type(e).__name__}: {e}"
    case = {"kind": "prog", "env": {k: ser.enc_val(v) for k, v in env.items()}, "steps": steps}
    return dict(case=case, impl=stream.strip_py(res), oracle=orc,
                meta=dict(sym=sym, fermi=True, kind="solve-lazy", pending=True),
                nontrivial=True, op="solve", triggers=[])


def derived_case(rng):
    """pending signs are applied exactly once: an array DERIVED from a lazily signed one (decomposition factors,
    align_axes / sync_charges results, copies) is synchronised in place; the source array's value must not move
    (and vice versa)"""
    import symmray as sr

    sym = rng.choice(gen.SYMS)
    i1 = gen.rand_index(rng, sym, max_charges=3, max_size=2)
    i2 = gen.rand_index(rng, sym, max_charges=3, max_size=2)
    x = gen.rand_array(rng, sym, indices=[i1, i2], fermi=True, dtype=rng.choice(["float64", "complex128"]),
                       keep=rng.choice([0.6, 1.0]), pending=True, charge=gen.py_combine(sym, []) if rng.random() < 0.5 else None)
    env = {"x": x}
    steps = [{"out": ["y"], "op": "transpose", "in": ["x"], "params": {"axes": [1, 0]}}]
    res, env2 = impl.run_prog(env, steps)
    y = env2.get("y")
    orc = None
    which = rng.choice(["qr", "svd", "svd_truncated", "sync_charges", "align_axes", "copy", "copy_with"])
    if y is not None and y.blocks:
        before = _val(y)
        raw_before = ser.enc_array(y)
        try:
            if which == "qr":
                derived = list(sr.linalg.qr(y))
            elif which == "svd":
                u, s_, vh = sr.linalg.svd(y)
                derived = [u, vh]
            elif which == "svd_truncated":
                u, s_, vh = sr.linalg.svd_truncated(y, max_bond=rng.randint(1, 4), absorb=rng.choice([None, -1, 0, 1]))
                derived = [u, vh]
            elif which == "sync_charges":
                derived = [y.sync_charges()]
            elif which == "align_axes":
                z = y.conj()
                derived = list(sr.align_axes(y, z, ((0,), (0,))))
            elif which == "copy":
                derived = [y.copy()]
            else:
                derived = [y.copy_with()]
            dvals = []
            for d in derived:
                if isinstance(d, sr.FermionicArray):
                    dvals.append(_val(d))
                    d.phase_sync(inplace=True)
            if _val(y) != before or ser.enc_array(y) != raw_before:
                orc = (f"synchronising in place an array derived from a lazily signed array ({which}) changed the "
                       "source array: its pending signs are no longer applied exactly once")
            else:
                # and the other direction: synchronising the source must not move the derived arrays
                derived2 = [y.sync_charges(), y.copy_with()]
                dv = [_val(d) for d in derived2]
                y2 = y.phase_sync(inplace=True)
                if [_val(d) for d in derived2] != dv:
                    orc = "synchronising a lazily signed array in place changed the value of arrays derived from it"
        except np.linalg.LinAlgError:
            pass
    case = {"kind": "prog", "env": {k: ser.enc_val(v) for k, v in env.items()}, "steps": steps}
    return dict(case=case, impl=stream.strip_py(res), oracle=orc,
                meta=dict(sym=sym, fermi=True, kind="derived-sync", which=which, pending=True),
                nontrivial=True, op="derived-sync", triggers=[])


def stale_case(rng):
    """a block that carries a pending sign is dropped (multiply_diagonal with a vector lacking its charge,
    align_axes, drop_missing_blocks); after sync_charges the remaining legs have size one and are squeezed.
    The sign entry left behind by the dropped block must not be applied to another block: the value after
    the squeeze equals the value before it."""
    import symmray as sr

    sym = rng.choice(["Z2", "U1", "Z2Z2", "Z4"])
    c0 = gen.py_combine(sym, [])
    c1 = {"Z2": 1, "U1": rng.choice([1, -1, 2]), "Z4": rng.choice([1, 2, 3]), "Z2Z2": rng.choice([(0, 1), (1, 0), (1, 1)])}[sym]
    i = sr.BlockIndex({c0: 1, c1: 1}, dual=False)
    cls, kw = gen.array_class(sym, True, sym != "Z4" and rng.random() < 0.7)
    val0, val1 = rng.randint(1, 5), rng.randint(1, 5)
    kept = (c0, c0)
    dropped = (c1, c1)
    x = cls(indices=(i, i.conj()), charge=c0, blocks={kept: np.array([[float(val0)]]), dropped: np.array([[float(val1)]])}, **kw)
    route = rng.choice(["multiply_diagonal", "align_axes", "drop_missing_blocks"])
    env = {"x": x}
    steps = [{"out": ["p"], "op": "phase_sector", "in": ["x"], "params": {"sector": ser.enc_sector(dropped)}}]
    orc = None
    res = []
    try:
        if route == "multiply_diagonal":
            env["v"] = sr.BlockVector({c0: np.array([1.0])})
            steps += [{"out": ["d"], "op": "multiply_diagonal", "in": ["p", "v"], "params": {"axis": 1}},
                      {"out": ["s"], "op": "sync_charges", "in": ["d"], "params": {}},
                      {"out": ["z"], "op": "squeeze", "in": ["s"], "params": {"axis": None}}]
            res, env2 = impl.run_prog(env, steps)
            z = env2.get("z")
        else:
            res, env2 = impl.run_prog(env, steps)
            p = env2["p"]
            if route == "align_axes":
                w = cls(indices=(i,), charge=c0, blocks={(c0,): np.array([1.0])}, **kw)
                d, _ = sr.align_axes(p, w, ((1,), (0,)))
            else:
                d = p.copy()
                d.blocks[dropped] = np.zeros((1, 1))
                d.drop_missing_blocks()
            z = d.sync_charges().squeeze()
        if z is not None:
            got = complex(z.item()) if z.blocks else 0.0
            if got != complex(val0):
                orc = (f"a block carrying a pending sign was dropped by {route}; after sync_charges().squeeze() the sign "
                       f"entry it left behind is applied to another block: value {got} instead of {complex(val0)}")
    except Exception as e:  # noqa
        orc = f"{route} / sync_charges / squeeze raised {type(e).__name__}: {e}"
    case = {"kind": "prog", "env": {k: ser.enc_val(v) for k, v in env.items()}, "steps": steps}
    return dict(case=case, impl=stream.strip_py(res), oracle=orc,
                meta=dict(sym=sym, fermi=True, kind="stale-sign", route=route, pending=True),
                nontrivial=True, op="stale-sign-rekey", triggers=["stale_phase_key_rekeyed"])


def disjoint_add_case(rng):
    """x + y / x - y / x += y where y carries pending signs and x stores NO block on those sectors (an empty
    accumulator, an array whose blocks were all dropped, or one lacking exactly those sectors): blocks present
    only in y are taken over into the result and must bring their signs along"""
    import symmray as sr

    sym = rng.choice(gen.SYMS)
    nd = rng.randint(1, 3)
    y = gen.rand_array(rng, sym, ndim=nd, fermi=True, dtype=rng.choice(["float64", "complex128"]), keep=1.0,
                       pending=True, max_charges=2)
    kind = rng.choice(["empty", "dropped", "partial"])
    x = y.phase_sync()
    if kind == "empty":
        for s_ in list(x.blocks):
            del x.blocks[s_]
    elif kind == "dropped":
        x = x * 0
        x.drop_missing_blocks()
    else:
        for s_ in list(y.phases):
            x.blocks.pop(s_, None)
    opname = "add"  # subtraction requires every right block to be present on the left (raises otherwise)
    env = {"x": x, "y": y}
    steps = [{"out": ["z"], "op": opname, "in": ["x", "y"], "params": {}}]
    res, env2 = impl.run_prog(env, steps)
    orc = None
    if "ok" in res[0]:
        z = env2["z"]
        ze = (x + y.phase_sync()) if opname == "add" else (x - y.phase_sync())
        if _val(z.phase_sync()) != _val(ze.phase_sync()):
            orc = (f"x {'+' if opname == 'add' else '-'} y with pending signs on y and x storing no block there ({kind} left "
                   "operand) differs from the same operation on the synchronised copy of y")
        else:
            w = x.copy()
            if opname == "add":
                w += y
            else:
                w -= y
            if _val(w.phase_sync()) != _val(ze.phase_sync()):
                orc = f"in-place {opname} with a lazily signed right operand ({kind} left operand) differs from the synchronised run"
    else:
        orc = f"{opname} raised {res[0].get('msg')}"
    case = {"kind": "prog", "env": {k: ser.enc_val(v) for k, v in env.items()}, "steps": steps}
    return dict(case=case, impl=stream.strip_py(res), oracle=orc,
                meta=dict(sym=sym, fermi=True, kind="disjoint-add", left=kind, pending=bool(y.phases)),
                nontrivial=bool(y.phases), op=opname, triggers=[])


def same_table_product_case(rng):
    """elementwise product / quotient-free arithmetic of two operands that carry the SAME non-empty pending-sign
    table (e.g. after the same transpose / phase_flip sequence): the two signs cancel in a product, add up in a sum"""
    import symmray as sr

    sym = rng.choice(gen.SYMS)
    x = gen.rand_array(rng, sym, ndim=rng.randint(1, 3), fermi=True, dtype=rng.choice(["float64", "complex128"]),
                       keep=rng.choice([0.6, 1.0]), pending=True, max_charges=2)
    y = x.copy()
    for s_ in list(y.blocks):
        y.blocks[s_] = gen.rand_block(rng, np.shape(y.blocks[s_]), str(np.asarray(y.blocks[s_]).dtype))
    opname = rng.choice(["mul", "mul", "add", "sub"])
    env = {"x": x, "y": y}
    steps = [{"out": ["z"], "op": opname, "in": ["x", "y"], "params": {}}]
    res, env2 = impl.run_prog(env, steps)
    orc = None
    if "ok" in res[0]:
        xs, ys = x.phase_sync(), y.phase_sync()
        ze = {"mul": lambda: xs * ys, "add": lambda: xs + ys, "sub": lambda: xs - ys}[opname]()
        if _val(env2["z"].phase_sync()) != _val(ze.phase_sync()):
            orc = (f"{opname} of two operands carrying the same pending-sign table differs from the same operation on "
                   "their synchronised copies")
        else:
            w = x.copy()
            if opname == "mul":
                w *= y
            elif opname == "add":
                w += y
            else:
                w -= y
            if _val(w.phase_sync()) != _val(ze.phase_sync()):
                orc = f"in-place {opname} of operands with the same pending-sign table differs from the synchronised run"
            elif opname == "mul" and _val((x * x).phase_sync()) != _val((xs * xs).phase_sync()):
                orc = "x * x with pending signs differs from the square of the synchronised copy"
    else:
        orc = f"{opname} raised {res[0].get('msg')}"
    case = {"kind": "prog", "env": {k: ser.enc_val(v) for k, v in env.items()}, "steps": steps}
    return dict(case=case, impl=stream.strip_py(res), oracle=orc,
                meta=dict(sym=sym, fermi=True, kind="same-table-product", op=opname, pending=bool(x.phases)),
                nontrivial=bool(x.phases), op=opname, triggers=[])


def gen_cases(seed, chunk, n, tier):
    rng = random.Random(seed * 7919 + chunk * 104729 + 9)
    out = [hermitian_case(rng) for _ in range(max(1, n // 8))]
    out += [solve_case(rng) for _ in range(max(1, n // 8))]
    out += [derived_case(rng) for _ in range(max(1, n // 6))]
    out += [stale_case(rng) for _ in range(max(1, n // 10))]
    out += [disjoint_add_case(rng) for _ in range(max(1, n // 8))]
    out += [same_table_product_case(rng) for _ in range(max(1, n // 8))]
    for _ in range(n):
        env0, steps, results, meta = progs.rand_program(rng, fermi=True, length=rng.randint(1, 5), pending=True)
        # rebuild python env from the encoded one is avoided: regenerate by replaying on decoded arrays
        env = {k: ser.dec_array(v["arr"], dtype=meta["dtype"], static=meta["static"]) if "arr" in v
               else ser.dec_vec(v["vec"], dtype=meta["dtype"], sym=meta["sym"]) for k, v in env0.items()}
        lazy_res, lazy_env = impl.run_prog(env, steps)
        orc = None
        pending_seen = any(getattr(v, "phases", None) for v in lazy_env.values())
        # eager twin: sync every operand, and sync after every step
        eenv = {k: _sync(v) for k, v in env.items()}
        for k, st in enumerate(steps):
            r, eenv2 = impl.run_prog(eenv, [st])
            lr = lazy_res[k]
            if ("ok" in r[0]) != ("ok" in lr):
                orc = f"step {k} ({st['op']}): lazy run and synchronised run differ in raising ({lr.get('msg')} / {r[0].get('msg')})"
                break
            if "ok" not in r[0]:
                break
            eenv = {kk: _sync(vv) for kk, vv in eenv2.items()}
            for name in st["out"]:
                if _val(lazy_env[name]) != _val(eenv[name]):
                    orc = f"step {k} ({st['op']}): result on the lazy array differs from the result on its synchronised copy"
                    break
            if orc:
                break
        if orc is None:
            for name, x in lazy_env.items():
                if name not in eenv:
                    continue
                try:
                    ol = terminal_observations(x)
                    oe = terminal_observations(eenv[name])
                except Exception as e:  # noqa
                    orc = f"terminal observation raised {type(e).__name__}: {e}"
                    break
                for key in ol:
                    if ol[key] != oe.get(key):
                        orc = f"{key} of a lazily signed array differs from that of its synchronised copy"
                        break
                if orc:
                    break
                # sync is idempotent and value preserving
                import symmray as sr
                if isinstance(x, sr.FermionicArray):
                    s1 = x.phase_sync()
                    s2 = s1.phase_sync()
                    if s1.phases or _val(s1) != _val(x) or _val(s2) != _val(s1) or \
                            ser.enc_array(s2)["blocks"] != ser.enc_array(s1)["blocks"]:
                        orc = "phase_sync is not idempotent / changes the value"
                        break
        meta = dict(meta, nsteps=len(steps), pending=bool(pending_seen))
        case = {"kind": "prog", "env": env0, "steps": steps}
        out.append(dict(case=case, impl=stream.strip_py(lazy_res), oracle=orc, meta=meta,
                        nontrivial=bool(pending_seen), op=(steps[-1]["op"] if steps else "none"), triggers=[]))
    return out


def run(ctx):
    n = 1500 if ctx.tier == "quick" else 16000
    stream.run_stream(ctx, "lazy", "harness.props.c09", "gen_cases", n, per_chunk=32,
                      canon_kw=dict(drop_zero=True))


def replay(ctx, payload):
    return stream.replay(ctx, payload, canon_kw=dict(drop_zero=True))
