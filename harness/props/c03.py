"""C03 — Fermionic operations follow graded (Grassmann) tensor semantics."""

import random

import numpy as np

from .. import gen, impl, oracle, ser, stream

ID = "C03"
LEVEL = "proof"
PROPS_MODULE = "SymmModel.Props.C03All3"
THEOREMS = [
    "SymmModel.C03.isPerm_iff_perm",
    "SymmModel.C03.koszul_eq_invOdd",
    "SymmModel.C03.koszul_eq_invOdd_needs_perm",
    "SymmModel.C03.koszul_none_eq_reverse",
    "SymmModel.C03.koszul_none_eq_pow",
    "SymmModel.C03.koszul_id",
    "SymmModel.C03.koszul_sq",
    "SymmModel.C03.koszul_swap_adjacent",
    "SymmModel.C03.transposeF_phase",
    "SymmModel.C03.phaseFlip_phase",
    "SymmModel.C03.phaseTranspose_phase",
    "SymmModel.C03.phaseGlobal_phase",
    "SymmModel.C03.phase_ops_elem",
    "SymmModel.C03.transposeF_koszul",
    "SymmModel.C03.valid_gives_hyps",
    "SymmModel.C03.phaseGlobal_phase_needs_pm",
    "SymmModel.C03.phaseTranspose_phase_needs_distinct_keys",
    "SymmModel.C03.transposeF_phase_needs_length",
    "SymmModel.C03.gradedSign_def",
    "SymmModel.C03.gradedContract_def",
    "SymmModel.C03.freeAxes_eq",
    "SymmModel.C03.tensordotF_refines_graded",
    "SymmModel.C03.tensordotF_refines_graded_at",
    "SymmModel.C03.tensordotF_refines_graded_distinct_labels",
    "SymmModel.C03.ketbra_flip_branch_independent",
    "SymmModel.C03.prepared_operands",
    "SymmModel.C03.matmulF_refines_graded",
    "SymmModel.C03.gradedTrace_def",
    "SymmModel.C03.traceF_refines_graded",
    "SymmModel.C03.tensordotF_refines_graded_GRat",
    "SymmModel.C09.einsumF_eq",
    "SymmModel.C09.einsumF_refines_graded",
    "SymmModel.C09.transposedElem_inBox",
    "SymmModel.C06.tensordotF_modes_agree",
    "SymmModel.C06.tensordotF_refines_graded_any_mode",
    "SymmModel.C06.tensordotF_modes_agree_shapes",
    "SymmModel.C06.tensordotF_refines_graded_any_mode'",
    "SymmModel.C06.tensordotF_refines_graded_any_mode_weak",
    "SymmModel.C06.tensordotF_modes_agree_weak"
]
LEAN_FILES = ["SymmModel.Props.C03", "SymmModel.Proofs.Koszul", "SymmModel.Props.C03b", "SymmModel.Props.C03All", "SymmModel.Proofs.Graded", "SymmModel.Props.C09b", "SymmModel.Proofs.LazyMore", "SymmModel.Props.C06c", "SymmModel.Props.C03All2", "SymmModel.Proofs.TdotFused8", "SymmModel.Proofs.TdotFused9", "SymmModel.Props.C06d", "SymmModel.Props.C03All3"]
PLANNED = []
RULE = ("random fermionic arrays over all symmetries (static/generic classes), even and odd total charge with "
        "labels, sparse, pending lazy signs; every permutation for transpose; tensordot over random axes in modes "
        "auto/fused/blockwise; trace, matmul, single-array einsum. Compared with the Lean model and an independent "
        "dense graded-tensor calculation. non-trivial: some stored sector has >= 2 odd legs"
        '; operands carrying several sorted labels with nested conjugate pairs; scalar return path; negative axes')
ANCHORS = {"fermionic_core.py": ["transpose", "phase_flip", "phase_transpose", "tensordot_fermionic",
                                 "resolve_combined_oddpos", "einsum", "trace", "__matmul__"],
           "symmetries.py": ["calc_phase_permutation"]}
ASSUMPTIONS = ["the dense graded oracle (harness/oracle.py) is an independent statement of the graded convention"]


def _mk_case(env, steps):
    return {"kind": "prog", "env": {k: ser.enc_val(v) for k, v in env.items()}, "steps": steps}


def _odd_legs(x):
    sym = oracle.sym_of(x)
    return max((sum(gen.py_parity(sym, c) for c in s) for s in x.blocks), default=0)


def _labels(x):
    return [(o.label, o.dual) for o in x.oddpos]


def gen_cases(seed, chunk, n, tier):
    rng = random.Random(seed * 7919 + chunk * 104729 + 3)
    out = []
    for _ in range(n):
        sym = rng.choice(gen.SYMS)
        static = rng.random() < 0.7
        dtype = rng.choice(["float64", "complex128", "float32", "complex64"])
        keep = rng.choice([0.4, 0.7, 1.0])
        pending = rng.random() < 0.5
        kind = rng.choice(["transpose"] * 3 + ["tensordot"] * 5 + ["trace", "matmul", "einsum", "revsign", "scalar_outer"])
        meta = dict(sym=sym, static=static, kind=kind, pending=pending)
        orc = None
        if kind == "transpose":
            a = gen.rand_array(rng, sym, ndim=rng.randint(1, 4), fermi=True, static=static, dtype=dtype,
                               keep=keep, pending=pending)
            perm = list(range(a.ndim))
            rng.shuffle(perm)
            p = {"axes": perm} if rng.random() < 0.85 else {}
            if not p:
                perm = list(range(a.ndim))[::-1]
            elif rng.random() < 0.3:
                # negative axes denote the same permutation
                p = {"axes": [q - a.ndim if rng.random() < 0.5 else q for q in perm]}
            entry = rng.choice(["method", "function", "autoray"])
            nophase = bool(p) and rng.random() < 0.12
            if nophase:
                p = dict(p, phase=False)  # plain relabelling: no Koszul sign, pending signs carried along
            steps = [{"out": ["c"], "op": "transpose", "in": ["a"], "params": p}]
            env = {"a": a}
            res, env2 = impl.run_prog(env, steps, entry=entry)
            if "ok" in res[0] and nophase:
                exp = np.transpose(oracle.dense(a), [q % a.ndim for q in p["axes"]])
                orc = oracle.embed_compare(env2["c"], exp, [a.indices[q] for q in perm])
            elif "ok" in res[0]:
                exp, _ = oracle.gtranspose(oracle.dense(a), oracle.parity_vectors(a), perm)
                c = env2["c"]
                orc = oracle.embed_compare(c, exp, [a.indices[q] for q in perm])
                if orc is None and _labels(c) != _labels(a):
                    orc = "labels changed by transpose"
            else:
                orc = f"transpose raised {res[0].get('msg')}"
            nontrivial = _odd_legs(a) >= 2
            meta.update(parity=int(a.parity))
        elif kind == "revsign":
            # the `perm=None` shortcut (virtual reversal of all axes) against the general formula
            a = gen.rand_array(rng, sym, ndim=rng.randint(1, 5), fermi=True, static=static, dtype=dtype,
                               keep=keep, pending=pending)
            steps = [{"out": ["c"], "op": "phase_transpose", "in": ["a"], "params": {}}]
            env = {"a": a}
            res, env2 = impl.run_prog(env, steps)
            if "ok" in res[0]:
                rev = list(range(a.ndim))[::-1]
                exp, _ = oracle.gtranspose(oracle.dense(a), oracle.parity_vectors(a), rev)
                exp = np.transpose(exp, rev)  # signs only, layout unchanged
                orc = oracle.embed_compare(env2["c"], exp, list(a.indices))
            else:
                orc = f"phase_transpose raised {res[0].get('msg')}"
            nontrivial = _odd_legs(a) >= 2
        elif kind == "tensordot":
            pa = rng.choice([None, 0, 1])
            pb = rng.choice([None, 0, 1])
            a, b, xa, xb = gen.rand_contractible(rng, sym, fermi=True, static=static, dtype=dtype, keep=keep,
                                                 pending=pending, parities=(pa, pb))
            if rng.random() < 0.3:
                # operands that each subsume several odd tensors: label lists (kept in the library's sorted
                # order, as every reachable list is) whose concatenation contains nested conjugate pairs
                import symmray as sr
                La = rng.choice([2, 4] if not a.parity else [1, 3])
                la = sorted(sr.FermionicOperator(q, dual=rng.random() < 0.3) for q in rng.sample(range(1, 40), La))
                Lb = rng.choice([0, 2, 4] if not b.parity else [1, 3])
                m = min(La, Lb, rng.randint(1, 3))
                lb = sorted([o.dag for o in rng.sample(la, m)] +
                            [sr.FermionicOperator(q, dual=rng.random() < 0.3)
                             for q in rng.sample(range(41, 80), Lb - m)])
                a.modify(oddpos=la)
                b.modify(oddpos=lb)
                meta["nested_labels"] = True
            mode = rng.choice(["auto", "fused", "blockwise"])
            entry = rng.choice(["function", "autoray"])
            xa2 = [x - a.ndim if rng.random() < 0.2 else x for x in xa]
            steps = [{"out": ["c"], "op": "tensordot", "in": ["a", "b"],
                      "params": {"axes": [xa2, xb], "mode": mode}}]
            env = {"a": a, "b": b}
            res, env2 = impl.run_prog(env, steps, entry=entry)
            meta.update(mode=mode, ncon=len(xa), pa=int(a.parity), pb=int(b.parity))
            if "ok" in res[0]:
                c = env2["c"]
                exp, labels = oracle.graded_tensordot(a, b, xa, xb)
                full = [ix for i, ix in enumerate(a.indices) if i not in xa] + \
                       [ix for i, ix in enumerate(b.indices) if i not in xb]
                orc = oracle.embed_compare(c, exp, full)
                if orc is None and _labels(c) != labels:
                    orc = f"labels {_labels(c)} != expected {labels}"
                if orc is None and len(xa) == a.ndim == b.ndim:
                    # the scalar form of the same call (preserve_array=False) must carry the same sign
                    import symmray as sr
                    sc = sr.tensordot(a, b, (tuple(xa), tuple(xb)), mode=mode)
                    if complex(sc) != complex(exp):
                        orc = f"scalar result {sc} != graded dense contraction {complex(exp)}"
            else:
                orc = f"tensordot raised {res[0].get('msg')}"
            nontrivial = len(xa) >= 1 and (_odd_legs(a) >= 2 or _odd_legs(b) >= 2)
        elif kind == "scalar_outer":
            # outer product (no contracted axes) with a RANK-0 fermionic array that carries a pending sign (from
            # phase_global, or as the lazily signed result of contracting two odd arrays completely)
            import symmray as sr
            if rng.random() < 0.5:
                s0 = gen.rand_array(rng, sym, ndim=0, fermi=True, static=static, dtype=dtype, keep=1.0)
                s0 = s0.phase_global()
            else:
                u, w, xu, xw = gen.rand_contractible(rng, sym, fermi=True, static=static, dtype=dtype, keep=1.0,
                                                     parities=(1, 1), max_ndim=2, ncon=None)
                nd = rng.randint(1, 2)
                ixs = [gen.rand_index(rng, sym, 2, 2) for _ in range(nd)]
                u = gen.rand_array(rng, sym, indices=ixs, fermi=True, static=static, dtype=dtype, keep=1.0, parity=1,
                                   label=rng.randint(1, 9))
                w = gen.rand_array(rng, sym, indices=[ix.conj() for ix in ixs], fermi=True, static=static, dtype=dtype,
                                   keep=1.0, parity=1, label=rng.randint(10, 19))
                if rng.random() < 0.5:
                    u, w = w, u
                s0 = sr.tensordot(u, w, nd, preserve_array=True)
            t = gen.rand_array(rng, sym, ndim=rng.randint(1, 3), fermi=True, static=static, dtype=dtype, keep=keep,
                               pending=pending, label=rng.randint(20, 40))
            a, b = (s0, t) if rng.random() < 0.5 else (t, s0)
            mode = rng.choice(["auto", "fused", "blockwise"])
            axes = rng.choice([0, [[], []]])
            steps = [{"out": ["c"], "op": "tensordot", "in": ["a", "b"], "params": {"axes": axes, "mode": mode}}]
            env = {"a": a, "b": b}
            res, env2 = impl.run_prog(env, steps)
            meta.update(mode=mode, ncon=0, scalar_pending=bool(s0.phases), pa=int(a.parity), pb=int(b.parity))
            if "ok" in res[0]:
                c = env2["c"]
                exp, labels = oracle.graded_tensordot(a, b, [], [])
                orc = oracle.embed_compare(c, exp, list(a.indices) + list(b.indices))
                if orc is None and _labels(c) != labels:
                    orc = f"labels {_labels(c)} != expected {labels}"
                if orc is not None:
                    orc = "outer product with a rank-0 fermionic array: " + orc
            else:
                orc = f"tensordot raised {res[0].get('msg')}"
            nontrivial = bool(s0.phases)
        elif kind == "trace":
            ix = gen.rand_index(rng, sym)
            if rng.random() < 0.5:
                ix = ix.conj()
            a = gen.rand_array(rng, sym, indices=[ix, ix.conj()], fermi=True, static=static, dtype=dtype,
                               keep=keep, charge=gen.py_combine(sym, []), pending=pending)
            steps = [{"out": ["t"], "op": "trace", "in": ["a"], "params": {}}]
            env = {"a": a}
            res, env2 = impl.run_prog(env, steps, entry=rng.choice(["method", "function"]))
            if "ok" in res[0]:
                D = oracle.dense(a)
                pv = oracle.parity_vectors(a)[0]
                d = np.diagonal(D)
                exp = d.sum() if ix.dual else ((1 - 2 * pv) * d).sum()
                if complex(env2["t"]) != complex(exp):
                    orc = f"trace {env2['t']} != graded trace {exp}"
            else:
                orc = f"trace raised {res[0].get('msg')}"
            nontrivial = len(a.blocks) >= 2
            meta.update(dual_first=bool(ix.dual))
        elif kind == "matmul":
            na, nb = rng.choice([(1, 1), (1, 2), (2, 1), (2, 2)])
            shared = gen.rand_index(rng, sym)
            ia = [gen.rand_index(rng, sym) for _ in range(na - 1)] + [shared]
            ib = [shared.conj()] + [gen.rand_index(rng, sym) for _ in range(nb - 1)]
            a = gen.rand_array(rng, sym, indices=ia, fermi=True, static=static, dtype=dtype, keep=keep,
                               pending=pending, label=rng.randint(1, 20))
            b = gen.rand_array(rng, sym, indices=ib, fermi=True, static=static, dtype=dtype, keep=keep,
                               pending=pending, label=rng.randint(21, 40))
            steps = [{"out": ["c"], "op": "matmul", "in": ["a", "b"], "params": {}}]
            env = {"a": a, "b": b}
            res, env2 = impl.run_prog(env, steps)
            if "ok" in res[0]:
                exp, labels = oracle.graded_tensordot(a, b, [na - 1], [0])
                c = env2["c"]
                if na == nb == 1:
                    # scalar results lose their labels; compare the value only
                    if complex(c) != complex(exp):
                        orc = f"matmul scalar {c} != {complex(exp)}"
                else:
                    orc = oracle.embed_compare(c, exp, ia[:-1] + ib[1:])
            else:
                orc = f"matmul raised {res[0].get('msg')}"
            nontrivial = _odd_legs(a) >= 1 and _odd_legs(b) >= 1
        else:  # einsum
            npairs = rng.randint(0, 2)
            nfree = rng.randint(0 if npairs else 1, 2)
            labels = []
            idxs = []
            for q in range(npairs):
                ix = gen.rand_index(rng, sym)
                labels += [q, q]
                idxs += [ix, ix.conj()]
            for q in range(nfree):
                labels.append(npairs + q)
                idxs.append(gen.rand_index(rng, sym))
            order = list(range(len(labels)))
            rng.shuffle(order)
            lhs = [labels[i] for i in order]
            ia = [idxs[i] for i in order]
            rhs = [npairs + q for q in range(nfree)]
            rng.shuffle(rhs)
            a = gen.rand_array(rng, sym, indices=ia, fermi=True, static=static, dtype=dtype, keep=keep,
                               pending=pending)
            steps = [{"out": ["c"], "op": "einsum", "in": ["a"], "params": {"lhs": lhs, "rhs": rhs}}]
            env = {"a": a}
            res, env2 = impl.run_prog(env, steps)
            if "ok" in res[0]:
                # dense graded: bring each traced pair adjacent as (bra, ket) in front, kept axes
                # behind in output order, then take plain traces
                def key(i):
                    q = lhs[i]
                    return (rhs.index(q) if q in rhs else -1, q, not ia[i].dual)
                perm = sorted(range(len(lhs)), key=key)
                D, _ = oracle.gtranspose(oracle.dense(a), oracle.parity_vectors(a), perm)
                for _q in range(npairs):
                    D = np.trace(D, axis1=0, axis2=1)
                full = [ia[lhs.index(q)] for q in rhs]
                orc = oracle.embed_compare(env2["c"], D, full)
            else:
                orc = f"einsum raised {res[0].get('msg')}"
            nontrivial = npairs >= 1 and _odd_legs(a) >= 2
            meta.update(npairs=npairs)
        out.append(dict(case=_mk_case(env, steps), impl=stream.strip_py(res), oracle=orc, meta=meta,
                        nontrivial=bool(nontrivial), op=kind, triggers=[]))
    return out


def exh_cases(seed, chunk, nchunks, tier):
    """exhaustive small structures (see harness/small.py): every permutation of every small
    fermionic array; every contraction of a small array with a partner over every axes subset"""
    import itertools
    import symmray as sr
    from .. import small

    rng = random.Random(seed * 31 + 3)
    out = []
    k = -1
    for sym in ("Z2", "U1"):
        for ndim in (1, 2, 3):
            for a in small.arrays(sym, ndim, True, max_charges=2, seed=seed):
                k += 1
                if k % nchunks != chunk:
                    continue
                # (a) all permutations
                steps = []
                perms = list(itertools.permutations(range(ndim)))
                for j, perm in enumerate(perms):
                    steps.append({"out": [f"t{j}"], "op": "transpose", "in": ["a"], "params": {"axes": list(perm)}})
                env = {"a": a}
                res, env2 = impl.run_prog(env, steps)
                orc = None
                for j, perm in enumerate(perms):
                    if "ok" not in res[j]:
                        orc = f"transpose raised {res[j].get('msg')}"
                        break
                    exp, _ = oracle.gtranspose(oracle.dense(a), oracle.parity_vectors(a), list(perm))
                    orc = oracle.embed_compare(env2[f"t{j}"], exp, [a.indices[q] for q in perm])
                    if orc:
                        orc = f"perm {perm}: {orc}"
                        break
                out.append(dict(case=_mk_case(env, steps), impl=stream.strip_py(res), oracle=orc,
                                meta=dict(sym=sym, kind="exh-transpose", ndim=ndim),
                                nontrivial=_odd_legs(a) >= 2, op="transpose", triggers=[]))
                # (b) contractions with a partner over every non-empty axes subset (ndim <= 2)
                if ndim > 2 or not a.blocks:
                    continue
                for r in range(1, ndim + 1):
                    for S in itertools.permutations(range(ndim), r):
                        free = sr.BlockIndex({c: 1 for c in ((0, 1) if sym == "Z2" else (0, 1))}, dual=rng.random() < 0.5)
                        ib = [a.indices[i].conj() for i in S] + [free]
                        order = list(range(len(ib)))
                        rng.shuffle(order)
                        ib2 = [ib[o] for o in order]
                        xb = [order.index(q) for q in range(r)]
                        b = gen.rand_array(rng, sym, indices=ib2, fermi=True, keep=rng.choice([0.7, 1.0]),
                                           parity=rng.choice([0, 1]), label=3)
                        steps = []
                        for mode in ("blockwise", "fused"):
                            steps.append({"out": [f"c_{mode}"], "op": "tensordot", "in": ["a", "b"],
                                          "params": {"axes": [list(S), xb], "mode": mode}})
                        env = {"a": a, "b": b}
                        res, env2 = impl.run_prog(env, steps)
                        orc = None
                        exp, labels = oracle.graded_tensordot(a, b, list(S), xb)
                        full = [ix for i, ix in enumerate(a.indices) if i not in S] + \
                               [ix for i, ix in enumerate(b.indices) if i not in xb]
                        for j, mode in enumerate(("blockwise", "fused")):
                            if "ok" not in res[j]:
                                orc = f"tensordot raised {res[j].get('msg')}"
                                break
                            c = env2[f"c_{mode}"]
                            orc = oracle.embed_compare(c, exp, full)
                            if orc is None and _labels(c) != labels:
                                orc = f"labels {_labels(c)} != expected {labels}"
                            if orc:
                                orc = f"mode {mode}: {orc}"
                                break
                        out.append(dict(case=_mk_case(env, steps), impl=stream.strip_py(res), oracle=orc,
                                        meta=dict(sym=sym, kind="exh-tensordot", ndim=ndim),
                                        nontrivial=True, op="tensordot", triggers=[]))
    return out


def run(ctx):
    from .. import tie

    # translation tie: Lean definitions regenerated from /repo's source + equality theorems with the model
    ctx.tie = tie.run_tie(ctx, tie.FUNCTIONS["C03"])
    n = 8000 if ctx.tier == "quick" else 60000
    stream.run_stream(ctx, "graded", "harness.props.c03", "gen_cases", n, per_chunk=80,
                      canon_kw=dict(drop_zero=True))
    # exhaustive small structures: complete in the thorough tier, a 1/16 slice in the quick tier
    nch = 64
    chunks = list(range(nch)) if ctx.tier == "thorough" else [ctx.seed % nch, (ctx.seed + 17) % nch, (ctx.seed + 41) % nch, (ctx.seed + 53) % nch]
    stream.run_stream(ctx, "small", "harness.props.c03", "exh_cases", len(chunks), per_chunk=1,
                      canon_kw=dict(drop_zero=True), extra_args=(), chunk_ids=chunks, nchunks=nch)
    if ctx.tier == "thorough":
        ctx.exhaustive = True
        ctx.notes.append("exhaustive sub-scope completed: all fermionic Z2/U1 arrays with <= 3 indices of <= 2 charges "
                         "(size 1), all dualness patterns, charges, full / one-missing sparsity: every permutation; "
                         "for <= 2 indices every contraction with a partner over every ordered axes subset, both modes")


def replay(ctx, payload):
    return stream.replay(ctx, payload, canon_kw=dict(drop_zero=True))
