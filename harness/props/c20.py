"""C20 — Element type and precision are preserved."""

import itertools
import random

import numpy as np

from .. import gen, impl, oracle, progs, ser, stream

ID = "C20"
LEVEL = "proof"
PROPS_MODULE = "SymmModel.Props.C20"
THEOREMS = [
    "SymmModel.C20.promote_self",
    "SymmModel.C20.promote_comm",
    "SymmModel.C20.promote_assoc",
    "SymmModel.C20.realPart_real",
    "SymmModel.C20.realPart_precision",
    "SymmModel.C20.fold_promote_uniform",
    "SymmModel.C20.dop_uniform",
    "SymmModel.C20.insert_no_imag_loss",
    "SymmModel.C20.default_zeros_loses_imag",
]
LEAN_FILES = ["SymmModel.Props.C20", "SymmModel.Model.DType"]
RULE = ("the 4x4 promotion table and the real-part map of the model compared with numpy exhaustively; random "
        "programs (all public operations incl. both fuse strategies, to_dense, fill_missing_blocks, fused and "
        "blockwise contraction, decompositions) on uniform-dtype arrays for each of float32/float64/complex64/"
        "complex128 with sparsity that forces zero-block creation: every block of every result must have the input "
        "dtype (its real part for singular values / eigenvalues), and complex data must keep its imaginary part "
        "through fuse/unfuse/to_dense. non-trivial: a zero block had to be created, or a non-default dtype")
ANCHORS = {"abelian_core.py": ["_fuse_core", "_fuse_blocks_via_insert", "_fuse_blocks_via_concat", "to_dense",
                               "fill_missing_blocks", "_tensordot_via_fused"],
           "block_core.py": ["get_any_array"], "utils.py": ["get_random_fill_fn"],
           "linalg.py": ["svd", "eigh", "qr"]}
ASSUMPTIONS = ["the abstract dtype semantics of numpy kernels (keep / promote / cast into destination) is as "
               "documented by numpy; tied for promotion and real parts exhaustively"]
TRUSTED_EXTRA = ["which kernel class (keep/binary/zerosLike/insertInto/real) each symmray operation uses is read "
                 "from the source, and is what the per-block dtype check on the real code validates"]


def block_dtypes(x):
    import symmray as sr

    if isinstance(x, (sr.AbelianArray, sr.BlockVector)):
        return {str(np.asarray(b).dtype) for b in x.blocks.values()}
    if isinstance(x, np.ndarray):
        return {str(x.dtype)}
    return set()


REAL_OF = {"float32": "float32", "float64": "float64", "complex64": "float32", "complex128": "float64"}


def gen_cases(seed, chunk, n, tier):
    import symmray as sr

    rng = random.Random(seed * 7919 + chunk * 104729 + 20)
    out = []
    for _ in range(n):
        dtype = ser.DTYPES[(chunk + _) % 4]
        fermi = rng.random() < 0.4
        env0, steps, results, meta = progs.rand_program(rng, fermi=fermi, dtype=dtype, length=rng.randint(1, 4),
                                                        keep=rng.choice([0.3, 0.6]))
        env = {k: ser.dec_array(v["arr"], dtype=dtype, static=meta["static"]) if "arr" in v
               else ser.dec_vec(v["vec"], dtype=dtype, sym=meta["sym"]) for k, v in env0.items()}
        res, env2 = impl.run_prog(env, steps)
        orc = None
        zero_created = False
        for st, r in zip(steps, res):
            if "ok" not in r:
                break
            for name in st["out"]:
                dts = block_dtypes(env2[name])
                if dts - {dtype}:
                    orc = f"{st['op']} on {dtype} data returned blocks of dtype {sorted(dts)}"
                    break
            if orc:
                break
        if orc is None:
            # terminal operations that create zero blocks or new arrays
            for name, x in list(env2.items()):
                if not isinstance(x, sr.AbelianArray) or not x.blocks:
                    continue
                try:
                    if all(ix.chargemap for ix in x.indices):
                        d = x.to_dense()
                        zero_created = zero_created or len(x.blocks) < len(gen.valid_sectors(
                            ser.sym_name(x.symmetry), x.indices, x.charge))
                        if str(d.dtype) != dtype:
                            orc = f"to_dense of {dtype} data has dtype {d.dtype}"
                            break
                        if dtype.startswith("complex") and not np.array_equal(d, oracle.dense(x).astype(dtype)):
                            orc = "to_dense changed complex values"
                            break
                    y = x.copy()
                    y.fill_missing_blocks()
                    if block_dtypes(y) - {dtype}:
                        orc = f"fill_missing_blocks created blocks of dtype {sorted(block_dtypes(y) - {dtype})} next to {dtype}"
                        break
                    if x.ndim >= 2:
                        g = list(range(x.ndim))
                        rng.shuffle(g)
                        g = g[: rng.randint(2, x.ndim)]
                        for mode in (["insert", "concat"] if not x.fermionic else ["insert"]):
                            f = x.fuse(tuple(g), mode=mode) if not x.fermionic else x.fuse(tuple(g))
                            if block_dtypes(f) - {dtype}:
                                orc = f"fuse(mode={mode}) of {dtype} data returned dtype {sorted(block_dtypes(f))}"
                                break
                            u = f.unfuse(min(g))  # only the axis fused here (x may carry fused axes already)
                            if block_dtypes(u) - {dtype}:
                                orc = f"unfuse of {dtype} data returned dtype {sorted(block_dtypes(u))}"
                                break
                            if dtype.startswith("complex"):
                                pos = min(g)
                                perm = [i for i in range(pos) if i not in g] + g + \
                                       [i for i in range(pos, x.ndim) if i not in g]
                                xt = x.transpose(tuple(perm))
                                if ser.canon_array(ser.enc_array(u), tables=False) != \
                                        ser.canon_array(ser.enc_array(xt), tables=False):
                                    orc = f"fuse(mode={mode})/unfuse changed complex values (imaginary part lost?)"
                                    break
                        if orc:
                            break
                    if x.ndim == 2:
                        u, s, vh = sr.linalg.svd(x)
                        if block_dtypes(u) - {dtype} or block_dtypes(vh) - {dtype}:
                            orc = f"svd factors of {dtype} data have dtypes {sorted(block_dtypes(u) | block_dtypes(vh))}"
                            break
                        if block_dtypes(s) - {REAL_OF[dtype]}:
                            orc = f"singular values of {dtype} data have dtype {sorted(block_dtypes(s))}"
                            break
                        for stab in (False, True):
                            q, r = sr.linalg.qr(x, stabilized=stab)
                            if block_dtypes(q) - {dtype} or block_dtypes(r) - {dtype}:
                                orc = (f"qr(stabilized={stab}) factors of {dtype} data have dtypes "
                                       f"{sorted(block_dtypes(q) | block_dtypes(r))}")
                                break
                        if orc:
                            break
                        if str(x.charge) == str(x.symmetry.combine()) and all(
                                np.shape(b)[0] == np.shape(b)[1] for b in x.blocks.values()):
                            try:
                                w, ev = sr.linalg.eigh(x)
                                if block_dtypes(ev) - {dtype} or block_dtypes(w) - {REAL_OF[dtype]}:
                                    orc = f"eigh of {dtype} data changed dtype"
                                    break
                            except np.linalg.LinAlgError:
                                pass
                        ut, st_, vt = sr.linalg.svd_truncated(x, max_bond=2, absorb=None)
                        if block_dtypes(ut) - {dtype} or block_dtypes(vt) - {dtype} or block_dtypes(st_) - {REAL_OF[dtype]}:
                            orc = f"svd_truncated of {dtype} data changed dtype"
                            break
                    # contraction with the conjugate through both paths
                    c = x.conj()
                    ax = tuple(range(x.ndim))
                    for mode in ("fused", "blockwise"):
                        z = sr.tensordot(x, c, (ax[:1], ax[:1]), mode=mode, preserve_array=True)
                        if block_dtypes(z) - {dtype}:
                            orc = f"tensordot(mode={mode}) of {dtype} data returned dtype {sorted(block_dtypes(z))}"
                            break
                    if orc:
                        break
                except Exception as e:  # noqa
                    orc = f"terminal operation raised {type(e).__name__}: {e}"
                    break
        # random arrays from the library's own random helper keep the requested dtype
        if orc is None and rng.random() < 0.3:
            ix = gen.rand_index(rng, meta["sym"])
            cls, kw = gen.array_class(meta["sym"], False, meta["static"])
            r = cls.random((ix, ix.conj()), dtype=dtype, seed=rng.randint(0, 99), **kw)
            if block_dtypes(r) - {dtype}:
                orc = f"random(dtype={dtype}) returned blocks of dtype {sorted(block_dtypes(r))}"
        meta = dict(meta, nsteps=len(steps), zero_created=zero_created)
        case = {"kind": "prog", "env": env0, "steps": steps}
        out.append(dict(case=case, impl=stream.strip_py(res), oracle=orc, meta=meta,
                        nontrivial=bool(zero_created or dtype != "float64"), op="dtype", triggers=[]))
    return out


def run(ctx):
    # (1) promotion table / real-part map: complete tie to numpy
    qs = [["promote", a, b] for a in ser.DTYPES for b in ser.DTYPES] + [["real", a] for a in ser.DTYPES]
    m = ctx.model([{"id": 0, "kind": "dtype", "queries": qs}])
    exp = [str(np.promote_types(a, b)) for a in ser.DTYPES for b in ser.DTYPES] + \
          [str(np.abs(np.zeros(1, dtype=a)).dtype) for a in ser.DTYPES]
    if m is not None:
        if "bad" in m[0]:
            ctx.correspondence_broken("dtype-table:driver-bad", m[0]["bad"])
        elif m[0]["answers"] != exp:
            ctx.correspondence_broken("dtype-table", f"model {m[0]['answers']} vs numpy {exp}")
        ctx.evaluations += len(qs)
        ctx.exhaustive = False
        ctx.stat("promotion_table_entries", len(qs))
    # (2) programs per dtype on the real code, model value diff as usual
    n = 2400 if ctx.tier == "quick" else 16000
    stream.run_stream(ctx, "dtype", "harness.props.c20", "gen_cases", n, per_chunk=30,
                      canon_kw=dict(drop_zero=True))


def replay(ctx, payload):
    return stream.replay(ctx, payload, canon_kw=dict(drop_zero=True))
