"""C20 — Element type and precision are preserved."""

import itertools
import json
import random

import numpy as np

from .. import gen, impl, oracle, progs, ser, stream

import warnings as _warnings
_warnings.filterwarnings("ignore", category=np.exceptions.ComplexWarning)  # recorded explicitly where it matters

ID = "C20"
LEVEL = "proof"
PROPS_MODULE = "SymmModel.Props.C20All"
THEOREMS = [
    "SymmModel.C20.promote_self",
    "SymmModel.C20.promote_comm",
    "SymmModel.C20.promote_assoc",
    "SymmModel.C20.realPart_real",
    "SymmModel.C20.realPart_precision",
    "SymmModel.C20.fold_promote_uniform",
    "SymmModel.C20.dop_uniform",
    "SymmModel.C20.insert_no_imag_loss",
    "SymmModel.C20.default_zeros_loses_imag",
    # dtype-flow model (Props/C20b.lean)
    "SymmModel.C20b.step_preserves_dtype",
    "SymmModel.C20b.prog_preserves_dtype",
    "SymmModel.C20b.fuse_uniform",
    "SymmModel.C20b.unfuse_uniform",
    "SymmModel.C20b.reshape_uniform",
    "SymmModel.C20b.tensordot_uniform",
    "SymmModel.C20b.to_dense_uniform",
    "SymmModel.C20b.fill_missing_dtype",
    "SymmModel.C20b.fill_missing_uniform",
    "SymmModel.C20b.svd_dtypes",
    "SymmModel.C20b.eigh_dtypes",
    "SymmModel.C20b.qr_dtypes",
    "SymmModel.C20b.svd_truncated_dtypes",
    "SymmModel.C20b.solve_uniform",
    "SymmModel.C20b.binop_uniform",
    "SymmModel.C20b.multiply_diagonal_uniform",
    "SymmModel.C20b.ctor_dtypes",
    "SymmModel.C20b.from_dense_dtype",
    "SymmModel.C20b.fuse_insert_dtype_is_first_block",
    "SymmModel.C20b.fuse_insert_hazard",
    "SymmModel.C20b.fuse_insert_hazard_witness",
    "SymmModel.C20b.tdot_block_dtype_fold",
    "SymmModel.C20b.tdot_block_absent",
    "SymmModel.C20b.tdot_pair_dtype",
]
LEAN_FILES = ["SymmModel.Props.C20", "SymmModel.Model.DType", "SymmModel.Props.C20b", "SymmModel.Props.C20All",
              "SymmModel.Model.DTypeFlow", "SymmModel.Driver.DTypeFlowH", "SymmModel.Proofs.DTypeFlowBasic",
              "SymmModel.Proofs.DTypeFlowFuse", "SymmModel.Proofs.DTypeFlowOps", "SymmModel.Proofs.DTypeFlowProg",
              "SymmModel.Proofs.DTypeFlowEval"]
RULE = ("(1) the 4x4 promotion table and the real-part map of the model compared with numpy exhaustively; (2) random "
        "programs (all public operations incl. both fuse strategies, to_dense, fill_missing_blocks, fused and "
        "blockwise contraction, decompositions) on uniform-dtype arrays for each of float32/float64/complex64/"
        "complex128 with sparsity that forces zero-block creation: every block of every result must have the input "
        "dtype (its real part for singular values / eigenvalues), and complex data must keep its imaginary part "
        "through fuse/unfuse/to_dense (direct oracle). (3) dtype-flow model (Model/DTypeFlow.lean) tied step by step "
        "on arrays whose stored blocks have MIXED dtypes (random per block) and shuffled dict orders: for each step of "
        "random programs over ~45 operations the per-block dtypes of every result of the real code (and whether numpy "
        "emitted a ComplexWarning) are compared with the model's prediction (and its losesImag flag) computed from the "
        "actual operands; the numpy facts the model assumes (weak Python scalars, cast into destination, concatenate/"
        "stack/reduce promotion, kernels that keep / take real parts / promote) compared with numpy exhaustively over "
        "the four dtypes; a disagreement on mixed operands is re-run on uniform copies of the operands with the direct "
        "oracle. non-trivial: a zero block had to be created, a non-default dtype, or (stream dflow) operands with at "
        "least two different block dtypes")
ANCHORS = {"abelian_core.py": ["_fuse_core", "_fuse_blocks_via_insert", "_fuse_blocks_via_concat", "to_dense",
                               "fill_missing_blocks", "_tensordot_via_fused", "_tensordot_blockwise", "unfuse",
                               "multiply_diagonal", "einsum", "from_fill_fn", "from_dense", "random"],
           "block_core.py": ["get_any_array", "_binary_blockwise_op", "norm", "_do_reduction"],
           "utils.py": ["get_random_fill_fn"],
           "linalg.py": ["svd", "eigh", "qr", "solve", "svd_truncated", "_get_qr_fn"],
           "fermionic_core.py": ["phase_sync"]}
ASSUMPTIONS = ["the abstract dtype semantics of numpy kernels (keep / promote / real part / cast into destination / "
               "weak Python scalars) is as documented by numpy; tied for every assumed fact exhaustively over the four "
               "dtypes on every run",
               "pending fermionic signs do not influence dtypes (phase_sync negates blocks); validated by the mixed-"
               "dtype stream on fermionic arrays with pending signs"]
TRUSTED_EXTRA = ["the dtype-flow model is hand-written after the source; which example block / kernel each routine "
                 "uses is validated by the mixed-dtype correspondence stream (dflow), where different choices give "
                 "different answers"]


def block_dtypes(x):
    import symmray as sr

    if isinstance(x, (sr.AbelianArray, sr.BlockVector)):
        return {str(np.asarray(b).dtype) for b in x.blocks.values()}
    if isinstance(x, np.ndarray):
        return {str(x.dtype)}
    return set()


REAL_OF = {"float32": "float32", "float64": "float64", "complex64": "float32", "complex128": "float64"}


def gen_cases(seed, chunk, n, tier):
    import symmray as sr

    rng = random.Random(seed * 7919 + chunk * 104729 + 20)
    out = []
    for _ in range(n):
        dtype = ser.DTYPES[(chunk + _) % 4]
        fermi = rng.random() < 0.4
        env0, steps, results, meta = progs.rand_program(rng, fermi=fermi, dtype=dtype, length=rng.randint(1, 4),
                                                        keep=rng.choice([0.3, 0.6]))
        env = {k: ser.dec_array(v["arr"], dtype=dtype, static=meta["static"]) if "arr" in v
               else ser.dec_vec(v["vec"], dtype=dtype, sym=meta["sym"]) for k, v in env0.items()}
        res, env2 = impl.run_prog(env, steps)
        orc = None
        zero_created = False
        for st, r in zip(steps, res):
            if "ok" not in r:
                break
            for name in st["out"]:
                dts = block_dtypes(env2[name])
                if dts - {dtype}:
                    orc = f"{st['op']} on {dtype} data returned blocks of dtype {sorted(dts)}"
                    break
            if orc:
                break
        if orc is None:
            # terminal operations that create zero blocks or new arrays
            for name, x in list(env2.items()):
                if not isinstance(x, sr.AbelianArray) or not x.blocks:
                    continue
                try:
                    if all(ix.chargemap for ix in x.indices):
                        d = x.to_dense()
                        zero_created = zero_created or len(x.blocks) < len(gen.valid_sectors(
                            ser.sym_name(x.symmetry), x.indices, x.charge))
                        if str(d.dtype) != dtype:
                            orc = f"to_dense of {dtype} data has dtype {d.dtype}"
                            break
                        if dtype.startswith("complex") and not np.array_equal(d, oracle.dense(x).astype(dtype)):
                            orc = "to_dense changed complex values"
                            break
                    y = x.copy()
                    y.fill_missing_blocks()
                    if block_dtypes(y) - {dtype}:
                        orc = f"fill_missing_blocks created blocks of dtype {sorted(block_dtypes(y) - {dtype})} next to {dtype}"
                        break
                    if x.ndim >= 2:
                        g = list(range(x.ndim))
                        rng.shuffle(g)
                        g = g[: rng.randint(2, x.ndim)]
                        for mode in (["insert", "concat"] if not x.fermionic else ["insert"]):
                            if rng.random() < 0.6:
                                # call history: an array of IDENTICAL structure (same index objects, sectors,
                                # groups) but another element type goes through the same fuse first, so that
                                # anything memoised per structure (fuse plans, scratch zero blocks) is warm
                                other = rng.choice([d_ for d_ in ser.DTYPES if d_ != dtype])
                                tw = x.copy()
                                tw.apply_to_arrays(lambda b_, _o=other: np.asarray(b_).astype(_o))
                                try:
                                    tw.fuse(tuple(g), mode=mode) if not x.fermionic else tw.fuse(tuple(g))
                                except Exception:  # noqa
                                    pass
                            f = x.fuse(tuple(g), mode=mode) if not x.fermionic else x.fuse(tuple(g))
                            if block_dtypes(f) - {dtype}:
                                orc = f"fuse(mode={mode}) of {dtype} data returned dtype {sorted(block_dtypes(f))}"
                                break
                            u = f.unfuse(min(g))  # only the axis fused here (x may carry fused axes already)
                            if block_dtypes(u) - {dtype}:
                                orc = f"unfuse of {dtype} data returned dtype {sorted(block_dtypes(u))}"
                                break
                            if dtype.startswith("complex"):
                                pos = min(g)
                                perm = [i for i in range(pos) if i not in g] + g + \
                                       [i for i in range(pos, x.ndim) if i not in g]
                                xt = x.transpose(tuple(perm))
                                if ser.canon_array(ser.enc_array(u), tables=False) != \
                                        ser.canon_array(ser.enc_array(xt), tables=False):
                                    orc = f"fuse(mode={mode})/unfuse changed complex values (imaginary part lost?)"
                                    break
                        if orc:
                            break
                    if x.ndim == 2:
                        u, s, vh = sr.linalg.svd(x)
                        if block_dtypes(u) - {dtype} or block_dtypes(vh) - {dtype}:
                            orc = f"svd factors of {dtype} data have dtypes {sorted(block_dtypes(u) | block_dtypes(vh))}"
                            break
                        if block_dtypes(s) - {REAL_OF[dtype]}:
                            orc = f"singular values of {dtype} data have dtype {sorted(block_dtypes(s))}"
                            break
                        for stab in (False, True):
                            q, r = sr.linalg.qr(x, stabilized=stab)
                            if block_dtypes(q) - {dtype} or block_dtypes(r) - {dtype}:
                                orc = (f"qr(stabilized={stab}) factors of {dtype} data have dtypes "
                                       f"{sorted(block_dtypes(q) | block_dtypes(r))}")
                                break
                        if orc:
                            break
                        if str(x.charge) == str(x.symmetry.combine()) and all(
                                np.shape(b)[0] == np.shape(b)[1] for b in x.blocks.values()):
                            try:
                                w, ev = sr.linalg.eigh(x)
                                if block_dtypes(ev) - {dtype} or block_dtypes(w) - {REAL_OF[dtype]}:
                                    orc = f"eigh of {dtype} data changed dtype"
                                    break
                            except np.linalg.LinAlgError:
                                pass
                        ut, st_, vt = sr.linalg.svd_truncated(x, max_bond=2, absorb=None)
                        if block_dtypes(ut) - {dtype} or block_dtypes(vt) - {dtype} or block_dtypes(st_) - {REAL_OF[dtype]}:
                            orc = f"svd_truncated of {dtype} data changed dtype"
                            break
                    # contraction with the conjugate through both paths
                    c = x.conj()
                    ax = tuple(range(x.ndim))
                    for mode in ("fused", "blockwise"):
                        z = sr.tensordot(x, c, (ax[:1], ax[:1]), mode=mode, preserve_array=True)
                        if block_dtypes(z) - {dtype}:
                            orc = f"tensordot(mode={mode}) of {dtype} data returned dtype {sorted(block_dtypes(z))}"
                            break
                    if orc:
                        break
                except Exception as e:  # noqa
                    orc = f"terminal operation raised {type(e).__name__}: {e}"
                    break
        # random arrays from the library's own random helper keep the requested dtype
        if orc is None and rng.random() < 0.3:
            ix = gen.rand_index(rng, meta["sym"])
            cls, kw = gen.array_class(meta["sym"], False, meta["static"])
            # scale / loc as python numbers and as numpy scalars (e.g. scale = 1 / np.sqrt(D)), both distributions
            opts = {}
            if rng.random() < 0.7:
                opts["scale"] = rng.choice([0.5, np.float64(0.5), np.float32(0.5), 1 / np.sqrt(3.0), 2])
            if rng.random() < 0.5:
                opts["loc"] = rng.choice([0.25, np.float64(0.25), np.float32(0.25), -1])
            if rng.random() < 0.3:
                opts["dist"] = "uniform"
            r = cls.random((ix, ix.conj()), dtype=dtype, seed=rng.randint(0, 99), **opts, **kw)
            if block_dtypes(r) - {dtype}:
                orc = (f"random(dtype={dtype}, " + ", ".join(f"{k}={type(v).__name__}" for k, v in opts.items()) +
                       f") returned blocks of dtype {sorted(block_dtypes(r))}")
            if orc is None:
                fr = sr.utils.get_random_fill_fn(seed=1, dtype=dtype, **opts)((2, 3))
                if str(fr.dtype) != dtype:
                    orc = f"get_random_fill_fn(dtype={dtype}, {sorted(opts)}) returned dtype {fr.dtype}"
        meta = dict(meta, nsteps=len(steps), zero_created=zero_created)
        case = {"kind": "prog", "env": env0, "steps": steps}
        out.append(dict(case=case, impl=stream.strip_py(res), oracle=orc, meta=meta,
                        nontrivial=bool(zero_created or dtype != "float64"), op="dtype", triggers=[]))
    return out



# ======================================================================== dtype-flow tie
# The model SymmModel/Model/DTypeFlow.lean predicts, for every operation, the dtype of every
# result block from the dtypes of the operand blocks (in dict order).  It is tied to the real
# code on arrays whose stored blocks have MIXED dtypes and shuffled dict orders — inputs on which
# "which example block" and "which kernel class" matter.  Mixed arrays are outside the
# property's quantifier: a disagreement there is never reported as a failing input by itself;
# the same step is then re-run on uniform copies of its operands (all four dtypes) with the
# direct oracle; only if that fails is a violation reported, otherwise the correspondence is
# reported broken.

SCALAR_KINDS = ("pyint", "pyfloat", "pycomplex") + ser.DTYPES


def _dt(b):
    return str(np.asarray(b).dtype)


def enc_darr(x):
    return {"sym": ser.sym_name(x.symmetry), "fermi": bool(getattr(x, "fermionic", False)),
            "indices": [ser.enc_index(ix) for ix in x.indices], "charge": ser.enc_charge(x.charge),
            "blocks": [{"sector": ser.enc_sector(s), "dtype": _dt(b)} for s, b in x.blocks.items()]}


def enc_dvec(v):
    return {"vblocks": [{"charge": ser.enc_charge(c), "dtype": _dt(b)} for c, b in v.blocks.items()]}


def enc_dval(x):
    import symmray as sr

    if isinstance(x, sr.AbelianArray):
        return {"darr": enc_darr(x)}
    if isinstance(x, sr.BlockVector):
        return {"dvec": enc_dvec(x)}
    if isinstance(x, np.ndarray) and x.ndim > 0:
        return {"ddense": str(x.dtype)}
    if isinstance(x, (np.generic, np.ndarray)):
        return {"dscalar": str(x.dtype)}
    if isinstance(x, bool):
        return {"dscalar": "pybool"}
    if isinstance(x, int):
        return {"dscalar": "pyint"}
    if isinstance(x, float):
        return {"dscalar": "pyfloat"}
    if isinstance(x, complex):
        return {"dscalar": "pycomplex"}
    return {"dscalar": f"?{type(x).__name__}"}


def canon_dval(v):
    """what the tie compares: sector ↦ dtype as a sorted map (no dict order)"""
    if "darr" in v:
        return ("arr", tuple(sorted((tuple(map(tuple, b["sector"])), b["dtype"]) for b in v["darr"]["blocks"])))
    if "dvec" in v:
        return ("vec", tuple(sorted((tuple(b["charge"]), b["dtype"]) for b in v["dvec"]["vblocks"])))
    if "dscalar" in v:
        return ("num", v["dscalar"])
    return ("num", v["ddense"])  # a rank-0 dense result is a numpy scalar


def mk_scalar(kind, rng=None):
    if kind == "pyint":
        return 3
    if kind == "pyfloat":
        return 2.0
    if kind == "pycomplex":
        return 1.0 + 2.0j
    return np.dtype(kind).type(2)


def redtype(rng, x, dtypes=ser.DTYPES, shuffle=True):
    """give every stored block its own random dtype and shuffle the dict order (in place)"""
    items = list(x.blocks.items())
    if shuffle:
        rng.shuffle(items)
    new = {}
    for k, b in items:
        d = rng.choice(dtypes)
        b = np.asarray(b)
        if not d.startswith("complex") and b.dtype.kind == "c":
            b = b.real
        b = b.astype(d)
        if d.startswith("complex") and rng.random() < 0.8:
            b = b + 1j * np.asarray(rng.randint(1, 3), dtype=d)  # a genuinely complex block
            b = b.astype(d)
        new[k] = b
    x._blocks = new
    return x


def eval_dstep(op, ins, p):
    """run one step on the real symmray.  Returns the list of python-side results."""
    import symmray as sr

    x = ins[0] if ins else None
    if op in ("smul", "sdiv"):
        s = mk_scalar(p["scalar"])
        return [x * s] if op == "smul" else [x / s]
    if op in ("sum", "max", "min"):
        return [getattr(x, op)()]
    if op == "norm":
        return [x.norm()]
    if op == "fill_missing_blocks":
        y = x.copy()
        y.fill_missing_blocks()
        return [y]
    if op == "vdiv":
        return [x / ins[1]]
    if op == "vpow":
        return [x ** ins[1]]
    if op == "vabs":
        return [x.abs()]
    if op == "vto_dense":
        return [x.to_dense()]
    if op == "matmul":
        if x.fermionic:
            return [x @ ins[1]]
        return [x.__matmul__(ins[1], preserve_array=True)]
    if op == "svd_truncated":
        u, sv, vh = sr.linalg.svd_truncated(x, cutoff=-1.0, max_bond=p["max_bond"], absorb=p.get("absorb"))
        return [u, vh] if sv is None else [u, sv, vh]
    if op in ("from_fill", "random", "from_dense"):
        sym = p.get("static") or p.get("symmetry")
        cls, kw = gen.array_class(sym, p.get("fermi", False), p.get("static") is not None)
        if p.get("oddpos"):
            kw["oddpos"] = [sr.FermionicOperator(l, d) for l, d in p["oddpos"]]
        charge = None if p.get("charge") is None else ser.dec_charge(p["charge"], sym)
        if op == "from_dense":
            arr = np.arange(int(np.prod(p["shape"])), dtype="float64").reshape(p["shape"]).astype(p["dtype"])
            maps = [{i: ser.dec_charge(c, sym) for i, c in enumerate(m)} for m in p["maps"]]
            return [cls.from_dense(arr, maps, p["duals"], charge=charge, invalid_sectors="ignore", **kw)]
        indices = tuple(ser.dec_index(i, sym) for i in p["indices"])
        if op == "from_fill":
            return [cls.from_fill_fn(lambda shape: np.ones(shape, dtype=p["dtype"]), indices, charge, **kw)]
        dkw = {} if p.get("dtype") is None else {"dtype": p["dtype"]}
        return [cls.random(indices, charge, seed=7, **dkw, **kw)]
    return impl.eval_step(op, ins, p)


def _contractible_pairs(x, y):
    pairs, used = [], set()
    for i, ix in enumerate(x.indices):
        for j, iy in enumerate(y.indices):
            if j in used:
                continue
            if ix.dual != iy.dual and ix.chargemap == iy.chargemap and progs._sub_eq(ix, iy):
                pairs.append((i, j))
                used.add(j)
                break
    return pairs


def pick_dstep(rng, env, fermi, names, counter, sym, static):
    """an applicable step over the arrays / vectors of env (dtype-flow menu)"""
    import symmray as sr

    arrs = [n for n in names if isinstance(env[n], sr.AbelianArray)]
    vecs = [n for n in names if isinstance(env[n], sr.BlockVector)]
    fused = [n for n in arrs if any(ix.subinfo is not None for ix in env[n].indices)]
    if fused and rng.random() < 0.25:
        n = rng.choice(fused)
        cands = [i for i, ix in enumerate(env[n].indices) if ix.subinfo is not None]
        if rng.random() < 0.5:
            return {"out": [f"v{counter}"], "op": "unfuse", "in": [n], "params": {"axis": rng.choice(cands)}}
        return {"out": [f"v{counter}"], "op": "unfuse_all", "in": [n], "params": {}}
    # prefer operands whose blocks have at least two different dtypes (fusing etc. makes results uniform)
    if rng.random() < 0.75:
        marrs = [n for n in arrs if len(block_dtypes(env[n])) > 1]
        if marrs:
            arrs = marrs
            names = marrs + vecs
    out = f"v{counter}"
    if rng.random() < 0.45 and arrs:
        st = progs.pick_step(rng, env, fermi, names, counter)
        if st is not None and st["op"] != "smul":
            # vectors created by the program generator get mixed dtypes too
            for vn, v in st.get("_newvals", {}).items():
                redtype(rng, v)
            return st
    for _ in range(16):
        kind = rng.choice(["scalar", "binop", "reduce", "dense", "fill", "linalg", "linalg", "vec", "vec", "ctor",
                           "matmul", "reshape", "fusepair", "fusepair", "tdot", "tdot", "progs", "progs", "trace",
                           "align"])
        if kind == "progs" and arrs:
            st = progs.pick_step(rng, env, fermi, names, counter,
                                 ops=["unfuse", "unfuse_all", "einsum_trace", "squeeze_expand", "multiply_diagonal"])
            if st is not None:
                for vn, v in st.get("_newvals", {}).items():
                    redtype(rng, v)
                return st
            continue
        if kind == "trace" and arrs:
            n = rng.choice(arrs)
            x = env[n]
            if x.ndim == 2 and (not fermi or x.indices[0].dual != x.indices[1].dual):
                return {"out": [out], "op": "trace", "in": [n], "params": {}}
            continue
        if kind == "align" and arrs:
            n, m = rng.choice(arrs), rng.choice(arrs)
            pairs = _contractible_pairs(env[n], env[m])
            if pairs:
                return {"out": [out + "a", out + "b"], "op": "align_axes", "in": [n, m],
                        "params": {"axes": [[a for a, _ in pairs], [b for _, b in pairs]]}}
            continue
        if kind == "scalar" and (arrs or vecs):
            n = rng.choice(arrs + vecs)
            return {"out": [out], "op": rng.choice(["smul", "sdiv"]), "in": [n],
                    "params": {"scalar": rng.choice(SCALAR_KINDS)}}
        if kind == "binop" and arrs:
            n = rng.choice(arrs)
            x = env[n]
            cands = [m for m in arrs if progs._same_struct(x, env[m]) and
                     [i.subinfo is None for i in x.indices] == [i.subinfo is None for i in env[m].indices]]
            m = rng.choice(cands)
            op = rng.choice(["add", "sub", "mul"])
            if op == "sub" and set(x.blocks) != set(env[m].blocks):
                op = "add"
            return {"out": [out], "op": op, "in": [n, m], "params": {}}
        if kind == "reduce" and (arrs or vecs):
            n = rng.choice(arrs + vecs)
            if env[n].blocks:
                return {"out": [out], "op": rng.choice(["sum", "max", "min", "norm"]), "in": [n], "params": {}}
        if kind == "dense" and arrs:
            n = rng.choice(arrs)
            if all(ix.chargemap for ix in env[n].indices) and env[n].size <= 4096:
                return {"out": [out], "op": "to_dense", "in": [n], "params": {}}
        if kind == "fill" and arrs:
            n = rng.choice(arrs)
            return {"out": [out], "op": "fill_missing_blocks", "in": [n], "params": {}}
        if kind == "linalg" and arrs:
            mats = [n for n in arrs if env[n].ndim == 2 and env[n].blocks]
            if not mats:
                continue
            n = rng.choice(mats)
            x = env[n]
            op = rng.choice(["qr", "qr", "svd", "eigh", "solve", "svd_truncated"])
            if op == "qr":
                return {"out": [out + "q", out + "r"], "op": "qr", "in": [n],
                        "params": {"stabilized": rng.random() < 0.5}}
            if op == "svd":
                return {"out": [out + "u", out + "s", out + "w"], "op": "svd", "in": [n], "params": {}}
            square = all(np.shape(b)[0] == np.shape(b)[1] for b in x.blocks.values())
            if op == "eigh" and square and x.charge == x.symmetry.combine():
                return {"out": [out + "e", out + "u"], "op": "eigh", "in": [n], "params": {}}
            if op == "solve" and square:
                # right-hand side on the dual of the row index, random dtypes per block
                ix0 = x.indices[0]
                cls, kw = gen.array_class(sym, fermi, static)
                rows = sorted({s[0] for s in x.blocks})
                rc = rng.choice(rows)
                if fermi and gen.py_parity(sym, gen.py_sign(sym, rc, ix0.dual)):
                    kw["oddpos"] = 77
                try:
                    bvec = cls(indices=(ix0,), charge=gen.py_sign(sym, rc, ix0.dual),
                               blocks={(rc,): gen.rand_block(rng, (ix0.chargemap[rc],), rng.choice(ser.DTYPES))}, **kw)
                except Exception:  # noqa
                    continue
                bn = f"w{counter}"
                env[bn] = bvec
                return {"out": [out], "op": "solve", "in": [n, bn], "params": {}, "_newvals": {bn: bvec}}
            if op == "svd_truncated":
                absorb = rng.choice([None, -1, 0, 1])
                outs = [out + "u", out + "w"] if absorb is not None else [out + "u", out + "s", out + "w"]
                return {"out": outs, "op": "svd_truncated", "in": [n],
                        "params": {"max_bond": rng.choice([-1, 1, 2, 3]), "absorb": absorb}}
        if kind == "vec" and vecs:
            n = rng.choice(vecs)
            v = env[n]
            op = rng.choice(["add", "sub", "mul", "vdiv", "vpow", "vabs", "vto_dense", "neg"])
            if op in ("vabs", "neg"):
                return {"out": [out], "op": op, "in": [n], "params": {}}
            if op == "vto_dense":
                if v.blocks:
                    return {"out": [out], "op": op, "in": [n], "params": {}}
                continue
            m = rng.choice(vecs)
            if op in ("sub", "vdiv", "vpow") and set(env[m].blocks) != set(v.blocks):
                m = n
            return {"out": [out], "op": op, "in": [n, m], "params": {}}
        if kind == "ctor":
            op = rng.choice(["from_fill", "random", "from_dense"])
            p = {"fermi": bool(fermi)}
            p["static" if (static and sym != "Z4") else "symmetry"] = sym
            if op == "from_dense":
                nd = rng.randint(1, 3)
                shape = [rng.randint(1, 3) for _ in range(nd)]
                pool = gen.charge_pool(sym)[:2]
                p.update(shape=shape, dtype=rng.choice(ser.DTYPES),
                         maps=[[ser.enc_charge(rng.choice(pool)) for _ in range(d)] for d in shape],
                         duals=[rng.random() < 0.5 for _ in range(nd)])
            else:
                idx = [gen.rand_index(rng, sym) for _ in range(rng.randint(1, 3))]
                p["indices"] = [ser.enc_index(ix) for ix in idx]
                if op == "from_fill":
                    p["dtype"] = rng.choice(ser.DTYPES)
                else:
                    p["dtype"] = rng.choice([None] + list(ser.DTYPES))
            return {"out": [out], "op": op, "in": [], "params": p}
        if kind == "matmul" and arrs:
            n = rng.choice(arrs)
            x = env[n]
            for m in arrs:
                y = env[m]
                if 1 <= x.ndim <= 2 and 1 <= y.ndim <= 2 and x.ndim + y.ndim >= 3:
                    ix, iy = x.indices[-1], y.indices[0]
                    if ix.dual != iy.dual and ix.chargemap == iy.chargemap and progs._sub_eq(ix, iy):
                        return {"out": [out], "op": "matmul", "in": [n, m], "params": {}}
        if kind == "reshape" and arrs:
            n = rng.choice(arrs)
            x = env[n]
            if x.ndim >= 2 and x.blocks and all(ix.subinfo is None for ix in x.indices):
                k = rng.randint(0, x.ndim - 2)
                shp = list(x.shape)
                f = x.fuse((k, k + 1)) if not x.fermionic else None
                if f is not None:
                    ns = shp[:k] + [f.shape[k]] + shp[k + 2:]
                    if rng.random() < 0.3:
                        ns.insert(rng.randint(0, len(ns)), 1)
                    return {"out": [out], "op": "reshape", "in": [n], "params": {"newshape": ns}}
        if kind == "fusepair" and arrs:
            n = rng.choice(arrs)
            x = env[n]
            if x.ndim >= 2 and x.blocks:
                groups = progs.rand_groups(rng, x.ndim, allow_single=True, max_groups=3)
                if any(len(g) > 1 for g in groups):
                    p = {"groups": groups}
                    if not fermi:
                        p["mode"] = rng.choice(["insert", "concat"])
                    return {"out": [out], "op": "fuse", "in": [n], "params": p}
        if kind == "tdot" and arrs:
            n, m = rng.choice(arrs), rng.choice(arrs)
            x, y = env[n], env[m]
            pairs = [pr for pr in _contractible_pairs(x, y) if rng.random() < 0.7]
            if x.ndim + y.ndim - 2 * len(pairs) > 5:
                continue
            rng.shuffle(pairs)
            return {"out": [out], "op": "tensordot", "in": [n, m],
                    "params": {"axes": [[a for a, _ in pairs], [b for _, b in pairs]],
                               "mode": rng.choice(["fused", "fused", "blockwise", "auto"])}}
    return None


def _model_params(st, res):
    """parameters the model needs in addition (derived from structure only)"""
    import symmray as sr

    p = dict(st.get("params", {}))
    if st["op"] == "svd_truncated":
        p["_sizes"] = None
    return p


def run_dstep(env, st):
    """execute one step on the real code; returns (record, python results) where record is the
    single-step protocol case plus the implementation's observation"""
    import warnings

    import symmray as sr

    ins = [env[n] for n in st["in"]]
    p = dict(st.get("params", {}))
    case_env = {n: enc_dval(env[n]) for n in st["in"]}
    try:
        pyenv = {n: ser.enc_val(env[n]) for n in st["in"]}
    except (ValueError, OverflowError):  # NaN / inf data (0/0, 0**-1 in vector arithmetic): not re-runnable
        pyenv = None
    if st["op"] == "svd_truncated":
        x = ins[0]
        sizes = tuple(min(np.shape(b)) for b in x.blocks.values())
        p["counts"] = [int(c) for c in sr.linalg.calc_sub_max_bonds(sizes, p["max_bond"])]
    step = {"out": st["out"], "op": st["op"], "in": st["in"], "params": p}
    with warnings.catch_warnings(record=True) as w:
        warnings.simplefilter("always")
        try:
            res = eval_dstep(st["op"], ins, st.get("params", {}))
            obs = {"ok": [enc_dval(v) for v in res]}
        except RecursionError:
            res, obs = None, {"raise": "other"}
        except Exception as e:  # noqa
            res, obs = None, {"raise": ser.exc_kind(e), "msg": f"{type(e).__name__}: {e}"[:200]}
    obs["complex_warning"] = any(issubclass(x.category, np.exceptions.ComplexWarning) for x in w)
    rec = dict(case={"kind": "dflow", "env": case_env, "steps": [step]}, impl=obs, pyenv=pyenv,
               pystep={"out": st["out"], "op": st["op"], "in": st["in"], "params": st.get("params", {})})
    return rec, res


def uniform_oracle(pyenv, pystep, meta):
    """direct oracle of the property for one step: operands re-typed to each uniform dtype; every
    result block must have that dtype (real part allowed for vectors / scalars).  Returns None or
    (dtype, message)."""
    import warnings

    import symmray as sr

    op = pystep["op"]
    p = dict(pystep.get("params", {}))
    for d in ser.DTYPES:
        env = {}
        for n, v in pyenv.items():
            if "arr" in v:
                env[n] = ser.dec_array(v["arr"], dtype=d, static=v["arr"].get("static", True))
            elif "vec" in v:
                env[n] = ser.dec_vec(v["vec"], dtype=d, sym=meta.get("sym"))
            else:
                env[n] = ser.dec_val(v)
        if op in ("smul", "sdiv"):
            if p["scalar"] == "pycomplex":
                continue
            if p["scalar"] in ser.DTYPES:
                p["scalar"] = d
        if op in ("from_fill", "random", "from_dense"):
            if p.get("dtype") is None:
                continue  # the default of random() is float64 by documentation
            p["dtype"] = d
        ins = [env[n] for n in pystep["in"]]
        empty_in = any(isinstance(x, sr.AbelianArray) and not x.blocks for x in ins)
        with warnings.catch_warnings(record=True) as w:
            warnings.simplefilter("always")
            try:
                res = eval_dstep(op, ins, p)
            except Exception:  # noqa
                continue
        if any(issubclass(x.category, np.exceptions.ComplexWarning) for x in w):
            return d, f"{op} on uniform {d} operands discarded an imaginary part (ComplexWarning)"
        for r in res:
            if isinstance(r, sr.AbelianArray):
                bad = block_dtypes(r) - {d}
                if bad and not empty_in:
                    return d, f"{op} on uniform {d} operands returned blocks of dtype {sorted(bad)}"
            elif isinstance(r, sr.BlockVector):
                bad = block_dtypes(r) - {d, REAL_OF[d]}
                if bad:
                    return d, f"{op} on uniform {d} operands returned vector blocks of dtype {sorted(bad)}"
            elif isinstance(r, np.ndarray) and r.ndim > 0:
                if str(r.dtype) != d and not empty_in:
                    return d, f"{op} on uniform {d} operands returned a dense array of dtype {r.dtype}"
            elif isinstance(r, (np.generic, np.ndarray)):
                if str(r.dtype) not in (d, REAL_OF[d]):
                    return d, f"{op} on uniform {d} operands returned a scalar of dtype {r.dtype}"
    return None


def gen_dflow(seed, chunk, n, tier):
    import symmray as sr

    rng = random.Random(seed * 6007 + chunk * 15485863 + 2020)
    out = []
    for _ in range(n):
        sym = rng.choice(gen.SYMS)
        fermi = rng.random() < 0.4
        static = rng.random() < 0.7
        keep = rng.choice([0.5, 0.8, 1.0])
        for _try in range(6):
            a, b, xa, xb = gen.rand_contractible(rng, sym, fermi=fermi, static=static, dtype="complex128",
                                                 keep=keep, pending=fermi and rng.random() < 0.5)
            if len(a.blocks) + len(b.blocks) >= 4 and len(a.blocks) >= 2:
                break
        # dtype pools: all four; or two (so that "first block" matters more often)
        pool = rng.choice([ser.DTYPES, ser.DTYPES, ser.DTYPES, ("float32", "complex64"), ("float64", "complex128"),
                           ("float32", "float64"), ("float64", "complex64")])
        redtype(rng, a, pool)
        redtype(rng, b, pool)
        env = {"a": a, "b": b}
        names = ["a", "b"]
        if rng.random() < 0.5:
            env["w"] = redtype(rng, gen.rand_vec(rng, rng.choice(a.indices), dtype="complex128", keep=0.9), pool)
            names.append("w")
        meta = dict(sym=sym, fermi=fermi, static=static, keep=keep)
        for k in range(rng.randint(2, 7)):
            st = pick_dstep(rng, env, fermi, names, k, sym, static)
            if st is None:
                break
            for vn, v in st.pop("_newvals", {}).items():
                env[vn] = v
            rec, res = run_dstep(env, st)
            mixed = len({t for v in rec["case"]["env"].values() for t in _all_dtypes(v)}) > 1
            rec["meta"] = dict(meta, op=st["op"], mixed=mixed)
            out.append(rec)
            if res is None:
                break
            for nm, v in zip(st["out"], res):
                env[nm] = v
            names.extend(st["out"])
    return out


def _all_dtypes(v):
    if "darr" in v:
        return [b["dtype"] for b in v["darr"]["blocks"]]
    if "dvec" in v:
        return [b["dtype"] for b in v["dvec"]["vblocks"]]
    return []


def _first_dtype(v):
    if "darr" in v:
        bl = v["darr"]["blocks"]
        return bl[0]["dtype"] if bl else None
    if "dvec" in v:
        bl = v["dvec"]["vblocks"]
        return bl[0]["dtype"] if bl else None
    return None


def compare_dflow(ctx, items, model, stream="dflow"):
    """diff implementation observation and model prediction of every single-step case"""
    for it in items:
        meta = it["meta"]
        ctx.stat(f"{stream}.op={meta['op']}")
        ctx.stat(f"{stream}.mixed={meta['mixed']}")
        if meta["mixed"]:
            ctx.mark_nontrivial(json.dumps(it["case"], sort_keys=True, default=str))
        ctx.sample({"stream": stream, "step": it["case"]["steps"][0], "operand_dtypes":
                    {n: [b["dtype"] for b in v.get("darr", {}).get("blocks", [])] for n, v in it["case"]["env"].items()}},
                   limit=4)
        if model is None:
            continue
        m = model[it["case"]["id"]]
        if "bad" in m:
            ctx.correspondence_broken(f"{stream}:driver-bad", m["bad"] + " :: " + json.dumps(it["case"]["steps"])[:300])
            continue
        mr = m["results"][0]
        obs = it["impl"]
        mismatch = None
        if "ok" in obs and "ok" in mr:
            ci = [canon_dval(v) for v in obs["ok"]]
            cm = [canon_dval(v) for v in mr["ok"]]
            if ci != cm:
                mismatch = dict(kind="dtypes", impl=ci, model=cm)
            elif bool(mr["flags"]["losesImag"]) != bool(obs["complex_warning"]):
                mismatch = dict(kind="losesImag-vs-ComplexWarning", impl=obs["complex_warning"], model=mr["flags"])
            if mr["flags"]["losesImag"]:
                ctx.stat(f"{stream}.imaginary_part_lost_on_mixed_input")
            if mr["flags"]["narrows"]:
                ctx.stat(f"{stream}.narrowed_on_mixed_input")
            if mr["flags"]["defaulted"]:
                ctx.stat(f"{stream}.defaulted_float64")
        elif "raise" in obs:
            # an exception of the real code is not a dtype observation (error behaviour is the subject
            # of other properties; the dtype-flow model has e.g. no odd-position labels)
            ctx.stat(f"{stream}.implementation_raised")
        else:
            mismatch = dict(kind="ok-vs-raise", impl={k: v for k, v in obs.items() if k != "ok"} if "raise" in obs else "ok",
                            model=mr if "raise" in mr else "ok")
        if mismatch is None:
            continue
        ctx.disagreements_checked += 1
        orc = uniform_oracle(it["pyenv"], it["pystep"], meta) if it["pyenv"] is not None else None
        detail = dict(step=it["case"]["steps"][0], operands=it["case"]["env"], mismatch=mismatch, meta=meta)
        if orc is not None:
            ctx.violation(f"{stream}: {orc[1]}",
                          dict(stream=stream, dtype=orc[0], pyenv=it["pyenv"], step=it["pystep"], detail=detail),
                          triggers=[], op="dtype")
        elif meta["mixed"]:
            # operands with mixed block dtypes are outside the property's quantifier: how they are promoted or
            # cast is the library's business (concat vs insert, blockwise vs fused already differ).  A disagreement
            # that does not reproduce on uniform copies of the operands is recorded, not reported.
            ctx.stat(f"{stream}.mixed_input_tie_mismatch")
            if not any(n.startswith("dtype-flow tie:") for n in ctx.notes):
                ctx.notes.append("dtype-flow tie: the implementation treats some operand with MIXED block dtypes differently "
                                 "from the flow model (first: " + json.dumps(detail["step"])[:200] + " " +
                                 json.dumps(mismatch, default=str)[:300] + "); it agrees on uniform copies of the operands")
        else:
            ctx.correspondence_broken(f"{stream}:model-vs-implementation", json.dumps(detail, default=str)[:6000])


def numpy_facts(ctx):
    """the numpy facts the dtype-flow model assumes, compared with numpy itself exhaustively over
    the four dtypes (and with the model's tables through the driver)"""
    import warnings

    D = ser.DTYPES
    qs, exp = [], []
    one = {d: np.ones((2, 2), dtype=d) for d in D}
    for d in D:
        for k in SCALAR_KINDS:
            s = mk_scalar(k)
            rs = {str((one[d] * s).dtype), str((one[d] / s).dtype), str((one[d] + s).dtype),
                  str((one[d] - s).dtype), str((one[d] ** s).dtype), str((s * one[d]).dtype)}
            qs.append(["scalar", d, k])
            exp.append(rs.pop() if len(rs) == 1 else sorted(rs))
    for k in ("pyint",) + D:  # left operands the routines produce: `sum(...)` starts from int 0; numpy scalars
        for l in SCALAR_KINDS:
            r = mk_scalar(k) + mk_scalar(l)
            qs.append(["combine", k, l])
            exp.append(enc_dval(r)["dscalar"])
    for dest in D:
        for src in D:
            z = np.zeros((2,), dtype=dest)
            v = (1 + 2.0 ** -40) + (1j if src.startswith("complex") else 0)
            with warnings.catch_warnings(record=True) as w:
                warnings.simplefilter("always")
                z[:] = np.full((2,), v, dtype=src)
            cw = any(issubclass(x.category, np.exceptions.ComplexWarning) for x in w)
            stored_exact = complex(z[0]).real == complex(np.dtype(src).type(v)).real
            src_has_bits = complex(np.dtype(src).type(v)).real != 1.0
            qs.append(["cast", dest, src])
            exp.append([str(z.dtype), cw, bool(src_has_bits and not stored_exact)])
    for n in (1, 2, 3):
        for ds in itertools.product(D, repeat=n):
            pieces = [one[d] for d in ds]
            rs = {str(np.concatenate(pieces, axis=0).dtype), str(np.concatenate(pieces, axis=1).dtype),
                  str(np.stack([p.sum() for p in pieces]).dtype)}
            import functools, operator
            rs.add(str(functools.reduce(operator.add, pieces).dtype))
            qs.append(["concat", list(ds)])
            exp.append(rs.pop() if len(rs) == 1 else sorted(rs))
    # kernels assumed to keep / take real parts / promote: python-side comparison with the table
    prom = {(a, b): str(np.promote_types(a, b)) for a in D for b in D}
    bad = []
    for d in D:
        x = (np.arange(4, dtype="float64").reshape(2, 2) + np.eye(2) * 3).astype(d)
        h = (x + x.conj().T)
        keep = {"transpose": np.transpose(x, (1, 0)), "reshape": np.reshape(x, (4,)), "slice": x[:, :1],
                "fancy": x[[0, 1]][:, [1]], "None": x[None], "conj": np.conj(x), "neg": -x, "sqrt": np.sqrt(x),
                "einsum": np.einsum("aa->", x), "einsum2": np.einsum("ab->ba", x), "trace": np.trace(x),
                "qr-q": np.linalg.qr(x)[0], "qr-r": np.linalg.qr(x)[1], "svd-u": np.linalg.svd(x, full_matrices=False)[0],
                "svd-v": np.linalg.svd(x, full_matrices=False)[2], "eigh-v": np.linalg.eigh(h)[1],
                "zeros-dtype": np.zeros((2,), dtype=x.dtype), "sum": x.sum(), "max": x.real.astype(REAL_OF[d]).max() if False else x.sum(),
                "pow0.5": np.abs(x).sum() ** 0.5 * np.ones(1, dtype=d)[0]}
        import autoray as ar
        keep["zeros-like"] = ar.do("zeros", (2,), like=x)
        for k, v in keep.items():
            if str(np.asarray(v).dtype) != d:
                bad.append(f"{k}({d}) has dtype {np.asarray(v).dtype}")
        real = {"abs": np.abs(x), "svd-s": np.linalg.svd(x, full_matrices=False)[1], "eigh-w": np.linalg.eigh(h)[0],
                "abs2sum": np.sum(np.abs(x) ** 2), "norm-pow": np.sum(np.abs(x) ** 2) ** 0.5}
        for k, v in real.items():
            if str(np.asarray(v).dtype) != REAL_OF[d]:
                bad.append(f"{k}({d}) has dtype {np.asarray(v).dtype}")
        for e in D:
            y = (np.arange(4, dtype="float64").reshape(2, 2) + 1).astype(e)
            binary = {"add": x + y, "mul": x * y, "sub": x - y, "div": x / y, "pow": x ** y,
                      "tensordot": np.tensordot(x, y, axes=((1,), (0,))), "tensordot0": np.tensordot(x, y, axes=((), ())),
                      "solve": np.linalg.solve(x, y[:, 0]), "mulvec": x * y[0].reshape((1, -1))}
            for k, v in binary.items():
                if str(v.dtype) != prom[(d, e)]:
                    bad.append(f"{k}({d},{e}) has dtype {v.dtype}, promote gives {prom[(d, e)]}")
    import autoray as ar
    if str(ar.do("zeros", (2,), like=0.0).dtype) != "float64":
        bad.append("zeros(like=0.0) is not float64")
    if bad:
        ctx.correspondence_broken("dflow:numpy-facts", "; ".join(bad[:12]))
    ctx.evaluations += len(qs) + 4 * 25 + 16 * 9
    ctx.stat("numpy_fact_table_entries", len(qs) + 4 * 25 + 16 * 9)
    m = ctx.model([{"id": 0, "kind": "dflowTable", "queries": qs}])
    if m is not None:
        if "bad" in m[0]:
            ctx.correspondence_broken("dflow-table:driver-bad", m[0]["bad"])
        else:
            diff = [(q, a, e) for q, a, e in zip(qs, m[0]["answers"], exp) if a != e]
            if diff:
                ctx.correspondence_broken("dflow-table", f"{len(diff)} entries differ, first: {diff[:5]}")


def hazard_witness(ctx):
    """the model theorem `fuse_insert_mixed_loses_imag` replayed on the real code: a (legal but
    non-uniform) array whose first stored block is real and a later one complex is fused in insert
    mode.  Documentation (outside the property's uniform-input quantifier), reported as a note."""
    import warnings

    import symmray as sr

    ix = sr.BlockIndex({0: 1, 1: 1}, dual=False)
    blocks = {(0, 0): np.array([[1.0]], dtype="float64"), (1, 1): np.array([[2.0 + 3.0j]], dtype="complex128")}
    x = sr.Z2Array(indices=(ix, ix.conj()), charge=0, blocks=blocks)
    case = {"id": 0, "kind": "dflow", "env": {"x": enc_dval(x)},
            "steps": [{"out": ["f"], "op": "fuse", "in": ["x"], "params": {"groups": [[0, 1]], "mode": "insert"}},
                      {"out": ["g"], "op": "fuse", "in": ["x"], "params": {"groups": [[0, 1]], "mode": "concat"}}]}
    with warnings.catch_warnings(record=True) as w:
        warnings.simplefilter("always")
        f = x.fuse((0, 1), mode="insert")
    g = x.fuse((0, 1), mode="concat")
    lost = any(issubclass(q.category, np.exceptions.ComplexWarning) for q in w)
    fi, gi = f.blocks[(0,)], g.blocks[(0,)]
    real_code = dict(insert_dtype=str(fi.dtype), insert_values=[complex(v) for v in fi.tolist()],
                     concat_dtype=str(gi.dtype), concat_values=[complex(v) for v in gi.tolist()],
                     complex_warning=lost)
    m = ctx.model([case])
    if m is not None and "results" in m[0]:
        r0, r1 = m[0]["results"][0], m[0]["results"][1]
        model = dict(insert_dtype=r0["ok"][0]["darr"]["blocks"][0]["dtype"], losesImag=r0["flags"]["losesImag"],
                     concat_dtype=r1["ok"][0]["darr"]["blocks"][0]["dtype"])
        if (model["insert_dtype"], model["losesImag"], model["concat_dtype"]) != \
                (real_code["insert_dtype"], real_code["complex_warning"], real_code["concat_dtype"]):
            ctx.stat("dflow.hazard_witness_differs_from_model")
            ctx.notes.append("dtype-flow tie: the mixed-dtype hazard witness behaves differently from the flow model: " +
                             json.dumps(dict(model=model, real=real_code), default=str)[:400])
    ctx.evaluations += 1
    if lost and str(fi.dtype) == "float64":
        # recorded known finding (deterministic probe)
        ctx.violation("fuse(mode='insert') of an array whose first block is real and a later one complex discards "
                      "the imaginary part", dict(stream="hazard-witness", real_code=real_code),
                      triggers={"mixed_block_dtypes", "insert"}, op="fuse")
        ctx.stat("hazard.mixed_fuse_insert_drops_imaginary_part")
        ctx.notes.append("documented hazard (outside the uniform-input quantifier): fuse(mode='insert') of a Z2 "
                         "matrix with blocks {(0,0): float64 [[1]], (1,1): complex128 [[2+3j]]} returns the float64 "
                         f"block {real_code['insert_values']} (imaginary part dropped with a ComplexWarning); "
                         f"mode='concat' returns {real_code['concat_values']}")


def mixed_stream(ctx):
    """complex data that reaches an operation inside an array with mixed block dtypes (c = a + b with a real,
    b complex and sparser — both operands uniform, public operations only) must keep its imaginary part
    through to_dense, both fuse strategies, unfuse and contraction.  Direct oracle: independent densification."""
    import warnings

    import symmray as sr

    rng = random.Random(ctx.seed * 7919 + 2020)
    n = 60 if ctx.tier == "quick" else 600
    for _ in range(n):
        sym = rng.choice(gen.SYMS)
        nd = rng.randint(2, 3)
        rdt, cdt = rng.choice([("float64", "complex128"), ("float32", "complex64"), ("float64", "complex64")])
        a = gen.rand_array(rng, sym, ndim=nd, fermi=False, static=True, dtype=rdt, keep=1.0, max_charges=2, max_size=2)
        if len(a.blocks) < 2:
            continue
        first = next(iter(a.blocks))
        b = a.copy()
        for s_ in list(b.blocks):
            blk = np.asarray(b.blocks[s_])
            if s_ == first or rng.random() < 0.3:
                del b.blocks[s_]
            else:
                b.blocks[s_] = ((1 + rng.randint(1, 3) * 1j) * blk).astype(cdt)
        if not b.blocks:
            continue
        with warnings.catch_warnings():
            warnings.simplefilter("ignore")
            c = a + b
            D = oracle.dense(a).astype("complex128") + oracle.dense(b).astype("complex128")
            ctx.evaluations += 1
            ctx.stat("mixed:cases")
            case = dict(stream="mixed", sym=sym, a=ser.enc_array(a), b=ser.enc_array(b), dtypes=[rdt, cdt])
            trig = {"mixed_block_dtypes"}
            try:
                d = np.asarray(c.to_dense())
                if not np.array_equal(d.astype("complex128"), D):
                    ctx.violation(f"(real + sparser complex).to_dense() loses data: dtype {d.dtype}, max deviation "
                                  f"{float(np.max(np.abs(d - D)))}", case, triggers=trig, op="to_dense")
                    return
                g = list(range(nd))
                rng.shuffle(g)
                g = sorted(g[:2])
                for mode in ("concat", "insert"):
                    f = c.fuse(tuple(g), mode=mode)
                    df = np.asarray(f.unfuse(g[0]).to_dense()).astype("complex128")
                    perm = [i for i in range(g[0]) if i not in g] + g + [i for i in range(g[0], nd) if i not in g]
                    if not np.array_equal(df, np.transpose(D, perm)):
                        ctx.violation(f"(real + sparser complex).fuse(mode={mode!r}) discards imaginary parts / precision "
                                      f"(block dtypes {sorted(block_dtypes(f))})", case,
                                      triggers=trig | {mode}, op="fuse")
                        if mode != "insert":
                            return
                z = sr.tensordot(c, c.conj(), (tuple(range(nd)), tuple(range(nd))), mode="blockwise")
                if complex(z) != complex(np.sum(D * np.conj(D))):
                    ctx.violation("blockwise contraction of a mixed real/complex array with its conjugate differs from "
                                  "the dense value", case, triggers=trig, op="tensordot")
                    return
            except Exception as e:  # noqa
                ctx.violation(f"operation on a mixed real/complex array raised {type(e).__name__}: {e}", case,
                              triggers=trig, op="mixed")
                return


def pair_stream(ctx):
    """binary operations on two uniform arrays of DIFFERENT element types: the result has numpy's promoted type
    in every contraction mode and the wider operand's data is neither rounded nor stripped of its imaginary part"""
    import symmray as sr

    rng = random.Random(ctx.seed * 7919 + 2121)
    n = 120 if ctx.tier == "quick" else 1200
    for _ in range(n):
        sym = rng.choice(gen.SYMS)
        d1, d2 = rng.sample(ser.DTYPES, 2)
        fermi = rng.random() < 0.3
        a, b, xa, xb = gen.rand_contractible(rng, sym, fermi=fermi, static=rng.random() < 0.7, dtype=d1,
                                             keep=rng.choice([0.6, 1.0]), max_ndim=3)
        if not xa or not a.blocks or not b.blocks:
            continue
        for s_ in list(b.blocks):
            blk = np.asarray(b.blocks[s_])
            if d2.startswith("complex"):
                blk = blk * (1 + 2j) if not np.iscomplexobj(blk) else blk
            else:
                blk = blk.real
            b.blocks[s_] = blk.astype(d2)
        want = str(np.promote_types(d1, d2))
        ctx.evaluations += 1
        ctx.stat(f"pair:{d1}x{d2}")
        case = dict(stream="pair", sym=sym, fermi=fermi, a=ser.enc_array(a), b=ser.enc_array(b), axes=[xa, xb], dtypes=[d1, d2])
        try:
            ref = None
            for mode in ("blockwise", "fused", "auto"):
                c = sr.tensordot(a, b, (tuple(xa), tuple(xb)), mode=mode, preserve_array=True)
                dts = block_dtypes(c)
                if dts - {want}:
                    ctx.violation(f"tensordot(mode={mode}) of a {d1} and a {d2} array returned blocks of dtype {sorted(dts)}, "
                                  f"expected {want}", case, op="tensordot")
                    return
                v = ser.canon_array(ser.enc_array(c), tables=False)
                if ref is None:
                    ref = v
                elif v != ref:
                    ctx.violation(f"tensordot(mode={mode}) of a {d1} and a {d2} array differs in value from mode=blockwise "
                                  f"(data of the wider operand rounded or its imaginary part dropped)", case, op="tensordot")
                    return
        except Exception as e:  # noqa
            ctx.violation(f"tensordot of a {d1} and a {d2} array raised {type(e).__name__}: {e}", case, op="tensordot")
            return


def run_dflow(ctx):
    n = 2400 if ctx.tier == "quick" else 20000
    per_chunk = 50
    nchunks = max(1, (n + per_chunk - 1) // per_chunk)
    args = [(ctx.seed, k, min(per_chunk, n - k * per_chunk), ctx.tier) for k in range(nchunks)]
    chunks = ctx.pmap("harness.props.c20", "gen_dflow", args)
    items = [it for ch in chunks for it in ch]
    for i, it in enumerate(items):
        it["case"]["id"] = i
    ctx.evaluations += len(items)
    model = ctx.model([it["case"] for it in items])
    compare_dflow(ctx, items, model)


def twin_fuse_stream(ctx):
    """the SAME block structure (same index objects, stored sectors, groups) fused for every ordered pair of
    element types, one after the other in one process, in both fuse strategies: every block of the later result
    must have the later array's element type and the round trip must restore its data exactly (structure-keyed
    caches must not carry an element type over)"""
    import symmray as sr

    rng = random.Random(ctx.seed * 9173 + 20)
    n = 120 if ctx.tier == "quick" else 1200
    done = 0
    for _ in range(n):
        sym = rng.choice(gen.SYMS)
        nd = rng.choice([3, 4, 4])
        x0 = gen.rand_array(rng, sym, ndim=nd, dtype="complex128", keep=rng.choice([0.4, 0.6]), max_charges=3,
                            static=rng.random() < 0.7)
        if len(x0.blocks) < 2:
            continue
        axes = list(range(nd))
        rng.shuffle(axes)
        groups = [tuple(axes[:2])] + ([tuple(axes[2:4])] if nd == 4 and rng.random() < 0.6 else [])
        for mode in ("concat", "insert"):
            first, second = rng.sample(ser.DTYPES, 2)
            outs = {}
            for dt in (first, second):
                x = x0.copy()
                if dt.startswith("complex"):
                    x.apply_to_arrays(lambda b_, _d=dt: np.asarray(b_).astype(_d))
                else:
                    x.apply_to_arrays(lambda b_, _d=dt: np.asarray(b_).real.astype(_d))
                try:
                    f = x.fuse(*groups, mode=mode)
                    u = f.unfuse_all()
                except Exception as e:  # noqa
                    ctx.violation(f"twin-fuse: fuse(mode={mode}) of {dt} data after the same structure in {first} "
                                  f"raised {type(e).__name__}: {e}",
                                  dict(stream="twin-fuse", array=ser.enc_val(x), groups=[list(g) for g in groups],
                                       mode=mode, first=first, second=second), op="fuse", triggers=["dtype-twin"])
                    break
                outs[dt] = (x, f, u)
                done += 1
                bad = block_dtypes(f) - {dt} or block_dtypes(u) - {dt}
                perm = [a for g in groups for a in g]
                pos = sorted(min(g) for g in groups)
                want = None
                if not bad:
                    # data restored exactly (up to the axis order unfuse_all leaves): compare sorted magnitudes and sum
                    a1 = [complex(v) for b in x.blocks.values() for v in np.asarray(b).ravel()]
                    a2 = sorted((complex(v) for b in u.blocks.values() for v in np.asarray(b).ravel() if v != 0),
                                key=lambda c: (c.real, c.imag))
                    a1 = sorted((c for c in a1 if c != 0), key=lambda c: (c.real, c.imag))
                    if a1 != a2:
                        want = "fuse/unfuse changed the stored values (imaginary part or precision lost?)"
                if bad or want:
                    ctx.violation(f"twin-fuse: fuse(mode={mode}) of {dt} data, fused after an array of identical structure "
                                  f"with element type {first}: " + (want or f"block dtypes {sorted(block_dtypes(f) | block_dtypes(u))}"),
                                  dict(stream="twin-fuse", array=ser.enc_val(x), groups=[list(g) for g in groups],
                                       mode=mode, first=first, second=second), op="fuse", triggers=["dtype-twin"])
                    break
    ctx.evaluations += done
    ctx.stat("twin_fuse.fuses", done)


def run(ctx):
    # (1) promotion table / real-part map: complete tie to numpy
    qs = [["promote", a, b] for a in ser.DTYPES for b in ser.DTYPES] + [["real", a] for a in ser.DTYPES]
    m = ctx.model([{"id": 0, "kind": "dtype", "queries": qs}])
    exp = [str(np.promote_types(a, b)) for a in ser.DTYPES for b in ser.DTYPES] + \
          [str(np.abs(np.zeros(1, dtype=a)).dtype) for a in ser.DTYPES]
    if m is not None:
        if "bad" in m[0]:
            ctx.correspondence_broken("dtype-table:driver-bad", m[0]["bad"])
        elif m[0]["answers"] != exp:
            ctx.correspondence_broken("dtype-table", f"model {m[0]['answers']} vs numpy {exp}")
        ctx.evaluations += len(qs)
        ctx.exhaustive = False
        ctx.stat("promotion_table_entries", len(qs))
    # (2) programs per dtype on the real code, model value diff as usual
    n = 2400 if ctx.tier == "quick" else 16000
    stream.run_stream(ctx, "dtype", "harness.props.c20", "gen_cases", n, per_chunk=30,
                      canon_kw=dict(drop_zero=True))
    # (3) dtype-flow model tied on mixed-dtype inputs; numpy facts; hazard witness
    numpy_facts(ctx)
    hazard_witness(ctx)
    mixed_stream(ctx)
    pair_stream(ctx)
    twin_fuse_stream(ctx)
    run_dflow(ctx)


def replay(ctx, payload):
    case = payload.get("case", {})
    if isinstance(case, dict) and case.get("stream") == "dflow":
        # a step that fails the direct oracle on uniform operands: re-run it on the current tree
        orc = uniform_oracle(case["pyenv"], case["step"], case.get("detail", {}).get("meta", {}))
        print("what:", payload.get("what"))
        print("step:", json.dumps(case["step"]))
        print("verdict:", f"violation reproduces: {orc[1]}" if orc else "not reproduced on this tree")
        return 1 if orc else 0
    return stream.replay(ctx, payload, canon_kw=dict(drop_zero=True))
