"""C11 — Decompositions reconstruct the input from properly structured factors."""

import random

import numpy as np

from .. import gen, impl, oracle, progs, ser, stream

ID = "C11"
LEVEL = "proof"
PROPS_MODULE = "SymmModel.Props.C11All6"
THEOREMS = [
    "SymmModel.C11.bond_index_spec_qr",
    "SymmModel.C11.bond_index_spec_svd",
    "SymmModel.C11.factor_blocks_are_kernel_outputs",
    "SymmModel.C11.qrA_valid",
    "SymmModel.C11.svdA_valid",
    "SymmModel.C11.eighA_valid",
    "SymmModel.C11.solveA_valid",
    "SymmModel.C11.solve_odd_matrix_invalid",
    "SymmModel.C11.applyCounts_valid",
    "SymmModel.C11.qr_reconstructs",
    "SymmModel.C11.svd_reconstructs",
    "SymmModel.C11.solve_solves",
    "SymmModel.C11.qr_reconstructs_fermionic",
    "SymmModel.C11.svd_reconstructs_fermionic",
    "SymmModel.C11.eigh_reconstructs",
    "SymmModel.C11.eigh_reconstructs_fermionic",
    "SymmModel.C11.solve_solves_fermionic",
    "SymmModel.C11.qr_reconstructs_fermionic_labels",
    "SymmModel.C11.svd_reconstructs_fermionic_labels",
    "SymmModel.C11.solve_solves_fermionic_labels",
    "SymmModel.C11.eigh_reconstructs_fermionic_labels",
    "SymmModel.C11.svd_absorb_reconstructs_fermionic",
    "SymmModel.C11.svd_reconstructs_fermionic_right",
    "SymmModel.C11.absorb_products_agree_fermionic",
    "SymmModel.C11.absorb_products_agree_fermionic_truncated",
    "SymmModel.C11.svd_truncated_product_fermionic",
    "SymmModel.C11.svd_truncated_minus_discarded_fermionic",
    "SymmModel.C11.truncation_error_fermionic",
    "SymmModel.C11.qr_reconstructs_fused",
    "SymmModel.C11.qr_reconstructs_tensordotF",
    "SymmModel.C11.svd_reconstructs_tensordotF",
    "SymmModel.C11.qr_reconstructs_tensordotF_any_mode",
    "SymmModel.C11.svd_reconstructs_tensordotF_any_mode",
    "SymmModel.C11.svd_reconstructs_fused",
    "SymmModel.C11.solve_solves_fermionic_labelled",
    "SymmModel.C11.solve_labelled_matrix_not_b",
    "SymmModel.C11.svd_absorb_tensordotF",
    "SymmModel.C11.svd_truncated_tensordotF",
    "SymmModel.C11.svd_truncated_tensordotF_minus_discarded",
    "SymmModel.C11.truncation_error_tensordotF",
    "SymmModel.C11.qr_reconstructs_tensordotF_all_modes",
    "SymmModel.C11.svd_reconstructs_tensordotF_all_modes",
    "SymmModel.C11.q_blocks_orthonormal",
    "SymmModel.C11.u_vh_blocks_orthonormal",
    "SymmModel.C11.r_blocks_upper_triangular",
    "SymmModel.C11.singular_values_inherit",
    "SymmModel.C11.qr_isometry_array",
    "SymmModel.C11.svd_isometry_array",
    "SymmModel.C11.matmulF_tensordotF_agree",
    "SymmModel.C11.eigh_reconstructs_tensordotF_all_modes",
    "SymmModel.C11.solve_solves_tensordotF_all_modes",
    "SymmModel.C11.eigh_reconstructs_tensordot_all_modes",
    "SymmModel.C11.solve_solves_tensordot_all_modes",
    "SymmModel.C11.eighLabelSign_eq",
    "SymmModel.C11.eighLabelSign_of_even",
    "SymmModel.C11.eighLabelSign_nondual",
    "SymmModel.C11.eigh_reconstructs_fermionic_any_labels",
    "SymmModel.C11.isometrySign_eq",
    "SymmModel.C11.isometrySign_pm",
    "SymmModel.C11.isometrySign_bond_charge",
    "SymmModel.C11.qr_isometry_fermionic",
    "SymmModel.C11.svd_isometry_fermionic",
    "SymmModel.C11.qr_isometry_array_all_modes",
    "SymmModel.C11.svd_isometry_array_all_modes",
    "SymmModel.C11.svd_truncated_structure",
    "SymmModel.C11.singular_values_inherit_truncated",
    "SymmModel.C11.u_vh_blocks_orthonormal_truncated",
    "SymmModel.C11.svd_truncated_isometry_fermionic",
    "SymmModel.C11.qr_isometry_fermionic_everywhere",
    "SymmModel.C11.svd_isometry_fermionic_everywhere",
    "SymmModel.C11.svd_truncated_isometry_fermionic_everywhere",
    "SymmModel.C11.solve_solves_tensordotF_labelled_all_modes"
]
LEAN_FILES = ["SymmModel.Props.C11", "SymmModel.Proofs.LinalgLemmas", "SymmModel.Proofs.LinalgFactors", "SymmModel.Proofs.LinalgDense", "SymmModel.Proofs.LinalgSolve", "SymmModel.Proofs.LinalgTrunc", "SymmModel.Proofs.LinalgRecon", "SymmModel.Proofs.LinalgFermi", "SymmModel.Proofs.LinalgSolveRecon", "SymmModel.Props.C11b", "SymmModel.Props.C11All", "SymmModel.Proofs.LinalgMore", "SymmModel.Proofs.LinalgMore2", "SymmModel.Proofs.LinalgMore3", "SymmModel.Proofs.LinalgMore6", "SymmModel.Props.C11c", "SymmModel.Props.C11d", "SymmModel.Props.C11All2", "SymmModel.Proofs.ReconLabels", "SymmModel.Proofs.ReconSvd", "SymmModel.Proofs.ReconTrunc", "SymmModel.Proofs.ReconSolve", "SymmModel.Proofs.ReconEigh", "SymmModel.Props.C11e", "SymmModel.Props.C11All3", "SymmModel.Proofs.Recon2Core", "SymmModel.Proofs.Recon2Modes", "SymmModel.Proofs.Recon2Solve", "SymmModel.Props.C11f", "SymmModel.Props.C11All4", "SymmModel.Proofs.Recon3Core", "SymmModel.Proofs.Recon3Trunc", "SymmModel.Proofs.Recon3Iso", "SymmModel.Proofs.Recon3Prod", "SymmModel.Props.C11g", "SymmModel.Props.C11All5", "SymmModel.Proofs.DecompTransfer", "SymmModel.Proofs.DecompTdot", "SymmModel.Proofs.DecompGram", "SymmModel.Proofs.DecompIso", "SymmModel.Proofs.DecompIsoA", "SymmModel.Proofs.DecompTrunc", "SymmModel.Proofs.DecompEigh", "SymmModel.Props.C11h", "SymmModel.Proofs.SmallIso"]
PLANNED = []
RULE = ("random abelian and fermionic matrices (all symmetries; direct or obtained by fusing rank-3/4 arrays; every "
        "dualness pattern and total charge incl. odd; tall, wide, square and rank-deficient blocks; missing blocks; "
        "real/complex; pending signs): qr (plain and stabilised), svd, eigh (Hermitian charge-zero), solve. The "
        "structure of the factors (index tables, bond index, sectors, charges, sign tables, shapes) is diffed exactly "
        "against the Lean model; reconstruction and the per-block numeric clauses (orthonormality, triangularity, "
        "ordering, sign of the stabilised diagonal) are checked on the real factors with tolerance 1e-9 (1e-4 for "
        "single precision). non-trivial: >= 2 blocks or a non-square block"
        '; solve with pending signs on the right-hand side')
ANCHORS = {"linalg.py": ["qr", "qr_fermionic", "_get_qr_fn", "svd", "svd_fermionic", "eigh", "eigh_fermionic",
                         "solve", "solve_fermionic"]}
ASSUMPTIONS = ["LAPACK per-block factorisations satisfy their contract (validated numerically here, not proved)"]


def tol_of(dtype):
    return 2e-4 if "32" in dtype or dtype == "complex64" else 1e-9


def values_close(a, b, tol):
    """value views (signs multiplied in) agree sector-wise, missing == zero"""
    a = a.phase_sync() if a.fermionic else a
    b = b.phase_sync() if b.fermionic else b
    if a.ndim != b.ndim:
        return f"rank {a.ndim} != {b.ndim}"
    for s in set(a.blocks) | set(b.blocks):
        x = a.blocks.get(s)
        y = b.blocks.get(s)
        if x is None:
            x = np.zeros_like(y)
        if y is None:
            y = np.zeros_like(x)
        if np.shape(x) != np.shape(y):
            return f"sector {s}: shapes {np.shape(x)} vs {np.shape(y)}"
        scale = max(1.0, float(np.abs(y).max()) if np.size(y) else 1.0)
        if np.size(x) and float(np.abs(np.asarray(x) - np.asarray(y)).max()) > tol * scale:
            return f"sector {s}: values differ by {float(np.abs(np.asarray(x) - np.asarray(y)).max()):.3g}"
    if a.charge != b.charge:
        return f"charge {a.charge} vs {b.charge}"
    if [ix.dual for ix in a.indices] != [ix.dual for ix in b.indices]:
        return "index directions differ"
    return None


def make_matrix(rng, sym, fermi, static, dtype, hermitian=False):
    """returns (env, steps, name): a matrix, directly or by fusing a higher-rank array"""
    if hermitian:
        ix = gen.rand_index(rng, sym, max_charges=3, max_size=3)
        if rng.random() < 0.5:
            ix = ix.conj()
        x = gen.rand_array(rng, sym, indices=[ix, ix.conj()], fermi=fermi, static=static, dtype=dtype,
                           keep=rng.choice([0.6, 1.0]), charge=gen.py_combine(sym, []))
        for s, b in list(x.blocks.items()):
            b = np.asarray(b)
            x.blocks[s] = (b + b.conj().T).astype(dtype)
        return {"x": x}, [], "x"
    if rng.random() < 0.5:
        ia = gen.rand_index(rng, sym, max_charges=3, max_size=4)
        ib = gen.rand_index(rng, sym, max_charges=3, max_size=4)
        x = gen.rand_array(rng, sym, indices=[ia, ib], fermi=fermi, static=static, dtype=dtype,
                           keep=rng.choice([0.5, 1.0]), pending=fermi and rng.random() < 0.5,
                           parity=rng.choice([None, 0, 1]))
        if rng.random() < 0.3 and x.blocks:
            s = rng.choice(list(x.blocks))
            b = np.array(x.blocks[s])
            b[-1, ...] = 0  # rank deficiency
            if b.shape[0] > 1:
                b[0, ...] = b[-1, ...]
            x.blocks[s] = b
        return {"x": x}, [], "x"
    nd = rng.randint(3, 4)
    y = gen.rand_array(rng, sym, ndim=nd, fermi=fermi, static=static, dtype=dtype, keep=rng.choice([0.5, 1.0]),
                       pending=fermi and rng.random() < 0.5, max_charges=2, max_size=2,
                       parity=rng.choice([None, 0, 1]))
    perm = list(range(nd))
    rng.shuffle(perm)
    cut = rng.randint(1, nd - 1)
    steps = [{"out": ["x"], "op": "fuse", "in": ["y"], "params": {"groups": [perm[:cut], perm[cut:]]}}]
    return {"y": y}, steps, "x"


def block_checks(kind, x, facs, tol, stabilized=False):
    """numeric clauses of the kernel contract on the real factors"""
    if kind == "qr":
        q, r = facs
        for s, b in q.blocks.items():
            b = np.asarray(b)
            if not np.allclose(b.conj().T @ b, np.eye(b.shape[1]), atol=tol * 10):
                return f"Q block {s} does not have orthonormal columns"
        for s, b in r.blocks.items():
            b = np.asarray(b)
            if not np.allclose(b, np.triu(b), atol=tol):
                return f"R block {s} is not upper triangular"
            if stabilized:
                d = np.diagonal(b)
                if np.any(np.abs(np.imag(d)) > tol * 10) or np.any(np.real(d) < -tol * 10):
                    return f"stabilised R block {s} has a negative or complex diagonal"
    if kind == "svd":
        u, sv, vh = facs
        for s, b in u.blocks.items():
            b = np.asarray(b)
            if not np.allclose(b.conj().T @ b, np.eye(b.shape[1]), atol=tol * 10):
                return f"U block {s} does not have orthonormal columns"
        for s, b in vh.blocks.items():
            b = np.asarray(b)
            if not np.allclose(b @ b.conj().T, np.eye(b.shape[0]), atol=tol * 10):
                return f"VH block {s} does not have orthonormal rows"
        for c, b in sv.blocks.items():
            b = np.asarray(b)
            if np.any(b < -tol) or np.any(np.diff(b) > tol * max(1.0, float(b.max()) if b.size else 1.0)):
                return f"singular values of charge {c} are not non-negative and non-increasing"
            if np.iscomplexobj(b):
                return "singular values are complex"
    return None


def bond_checks(x, left, right):
    for nm, f in (("left", left), ("right", right)):
        v = oracle.py_valid(f)
        if v:
            return f"{nm} factor is not a valid array: {v}"
    bl, br = left.indices[1], right.indices[0]
    if bl.dual == br.dual:
        return "bond index has the same direction on both factors"
    if dict(bl.chargemap) != dict(br.chargemap):
        return "bond tables differ between the factors"
    want = {}
    for s, b in x.blocks.items():
        want[s[1]] = min(np.shape(b))
    if dict(bl.chargemap) != want:
        return f"bond table {dict(bl.chargemap)} is not one charge per input block with size min(m, n): {want}"
    if right.charge != x.symmetry.combine():
        return "right factor does not have the identity charge"
    if any(s[0] != s[1] for s in right.blocks):
        return "right factor has off-diagonal sectors"
    return None


def gen_cases(seed, chunk, n, tier):
    import symmray as sr

    rng = random.Random(seed * 7919 + chunk * 104729 + 11)
    out = []
    for _ in range(n):
        sym = rng.choice(gen.SYMS)
        fermi = rng.random() < 0.5
        static = rng.random() < 0.7
        dtype = rng.choice(ser.DTYPES)
        kind = rng.choice(["qr", "qr", "svd", "svd", "eigh", "solve"])
        tol = tol_of(dtype)
        env, steps, name = make_matrix(rng, sym, fermi, static, dtype, hermitian=kind in ("eigh",))
        orc = None
        stabilized = False
        if kind == "qr":
            stabilized = rng.random() < 0.5
            steps = steps + [{"out": ["q", "r"], "op": "qr", "in": [name], "params": {"stabilized": stabilized}}]
        elif kind == "svd":
            steps = steps + [{"out": ["u", "s", "vh"], "op": "svd", "in": [name], "params": {}}]
        elif kind == "eigh":
            steps = steps + [{"out": ["w", "e"], "op": "eigh", "in": [name], "params": {}}]
        else:
            # square, well-conditioned blocks: diagonally dominant
            ix = gen.rand_index(rng, sym, max_charges=3, max_size=3)
            if rng.random() < 0.5:
                ix = ix.conj()
            iy = ix.conj()
            if rng.random() < 0.5:
                a = gen.rand_array(rng, sym, indices=[iy.conj(), iy] if rng.random() < 0.5 else [ix, ix.conj()],
                                   fermi=fermi, static=static, dtype=dtype, keep=rng.choice([0.6, 1.0]),
                                   charge=gen.py_combine(sym, []), pending=fermi and rng.random() < 0.4)
            else:
                # arbitrary total charge: all charge sizes equal so that every block is square
                d = rng.randint(1, 3)
                i1 = sr.BlockIndex({c: d for c in gen.rand_index(rng, sym).chargemap}, dual=rng.random() < 0.5)
                i2 = sr.BlockIndex({c: d for c in gen.rand_index(rng, sym).chargemap}, dual=rng.random() < 0.5)
                a = gen.rand_array(rng, sym, indices=[i1, i2], fermi=fermi, static=static, dtype=dtype,
                                   keep=rng.choice([0.6, 1.0]), pending=fermi and rng.random() < 0.4,
                                   parity=0 if fermi else None)
            for s, b in list(a.blocks.items()):
                b = np.array(b)
                a.blocks[s] = (b + 8 * np.eye(b.shape[0])).astype(dtype)
            rhs = gen.rand_array(rng, sym, indices=[a.indices[0]], fermi=fermi, static=static, dtype=dtype,
                                 keep=rng.choice([0.6, 1.0]), label=rng.randint(1, 30),
                                 pending=fermi and rng.random() < 0.5)
            env = {"x": a, "rhs": rhs}
            steps = [{"out": ["sol"], "op": "solve", "in": ["x", "rhs"], "params": {}}]
            name = "x"
        res, env2 = impl.run_prog(env, steps)
        x = env2.get(name)
        meta = dict(sym=sym, fermi=fermi, static=static, dtype=dtype, kind=kind, fused=len(steps) > 1 and kind != "solve")
        nontrivial = x is not None and (len(x.blocks) >= 2 or any(np.shape(b)[0] != np.shape(b)[1] for b in x.blocks.values()))
        if not all("ok" in r for r in res):
            msg = [r.get("msg") for r in res if "raise" in r][0]
            if str(msg).startswith("LinAlgError"):
                continue  # numerical failure of a LAPACK kernel: nothing promised, not modelled
            if not (x is not None and x.blocks):
                orc = None  # empty input: nothing promised
            else:
                orc = f"{kind} raised {msg}"
        elif not x.blocks:
            orc = None
        else:
            try:
                if kind == "qr":
                    q, r = env2["q"], env2["r"]
                    orc = bond_checks(x, q, r) or block_checks("qr", x, (q, r), tol, stabilized)
                    if orc is None:
                        for mode in ("blockwise", "fused"):
                            rec = sr.tensordot(q, r, 1, mode=mode, preserve_array=True)
                            e = values_close(rec, x, tol * 20)
                            if e:
                                orc = f"Q·R (mode={mode}) does not reconstruct the input: {e}"
                                break
                elif kind == "svd":
                    u, s, vh = env2["u"], env2["s"], env2["vh"]
                    orc = bond_checks(x, u, vh) or block_checks("svd", x, (u, s, vh), tol)
                    if orc is None:
                        us = sr.multiply_diagonal(u, s, 1)
                        rec = sr.tensordot(us, vh, 1, mode=rng.choice(["blockwise", "fused"]), preserve_array=True)
                        e = values_close(rec, x, tol * 20)
                        if e:
                            orc = f"U·diag(s)·VH does not reconstruct the input: {e}"
                        sv = sr.multiply_diagonal(vh, s, 0)
                        rec2 = sr.tensordot(u, sv, 1, mode="blockwise", preserve_array=True)
                        e = e or values_close(rec2, x, tol * 20)
                        if e and orc is None:
                            orc = f"U·(diag(s)·VH) does not reconstruct the input: {e}"
                elif kind == "eigh":
                    w, ev = env2["w"], env2["e"]
                    rec = ev.multiply_diagonal(w, 1) @ ev.dagger()
                    e = values_close(rec, x, tol * 50)
                    if e:
                        orc = f"W·diag(λ)·W† does not reconstruct the input: {e}"
                    for c, b in w.blocks.items():
                        if np.iscomplexobj(np.asarray(b)):
                            orc = orc or "eigenvalues are complex"
                else:
                    sol = env2["sol"]
                    rhs = env2["rhs"]
                    want_charge = gen.py_combine(sym, [rhs.charge, gen.py_neg(sym, x.charge)])
                    if sol.charge != want_charge:
                        orc = f"solution charge {sol.charge} != {want_charge}"
                    else:
                        back = sr.tensordot(x, sol, 1, mode="blockwise", preserve_array=True)
                        # only the sectors of b that a reaches are solved for
                        keep = {s for s in rhs.blocks if any(t[0] == s[0] for t in x.blocks)}
                        rr = rhs.copy()
                        for s in list(rr.blocks):
                            if s not in keep:
                                del rr.blocks[s]
                        e = values_close(back, rr, tol * 50)
                        if e:
                            orc = f"a·x does not reproduce b: {e}"
            except Exception as e:  # noqa
                orc = f"checking the factors raised {type(e).__name__}: {e}"
        case = {"kind": "prog", "env": {k: ser.enc_val(v) for k, v in env.items()}, "steps": steps}
        trig = ["odd_matrix"] if (kind == "solve" and fermi and x is not None and x.parity) else []
        out.append(dict(case=case, impl=stream.strip_py(res), oracle=orc, meta=meta,
                        nontrivial=bool(nontrivial), op=kind, triggers=trig))
    return out


def probe_known(ctx):
    """deterministic probe of the recorded finding solve-odd-matrix (replayed on every run)"""
    import symmray as sr

    a = sr.Z2FermionicArray(indices=(sr.BlockIndex({0: 2, 1: 2}), sr.BlockIndex({0: 2, 1: 2}, dual=True)),
                            charge=1, oddpos=3,
                            blocks={(0, 1): np.array([[2., 1.], [1., 3.]]), (1, 0): np.array([[1., 2.], [0., 1.]])})
    b = sr.Z2FermionicArray(indices=(sr.BlockIndex({0: 2, 1: 2}),), charge=1, oddpos=5,
                            blocks={(1,): np.array([1., 2.])})
    ctx.evaluations += 1
    try:
        x = sr.linalg.solve(a, b)
        back = sr.tensordot(a, x, 1, mode="blockwise", preserve_array=True)
        e = values_close(back, b, 1e-9)
        labels_ok = [(o.label, o.dual) for o in back.oddpos] == [(o.label, o.dual) for o in b.oddpos]
        if e or not labels_ok or oracle.py_valid(x):
            ctx.violation("factor: a·x does not reproduce b (odd matrix): " + str(e or "labels/validity differ"),
                          dict(probe="solve-odd-matrix", a=ser.enc_array(a), b=ser.enc_array(b)),
                          triggers={"odd_matrix"}, op="solve")
    except Exception as ex:  # noqa
        ctx.violation(f"solve raised {type(ex).__name__}: {ex}", dict(probe="solve-odd-matrix"),
                      triggers={"odd_matrix"}, op="solve")


def run(ctx):
    probe_known(ctx)
    n = 4000 if ctx.tier == "quick" else 30000
    stream.run_stream(ctx, "factor", "harness.props.c11", "gen_cases", n, per_chunk=50,
                      canon_kw=dict(structure=True), raise_kinds=False)


def replay(ctx, payload):
    return stream.replay(ctx, payload, canon_kw=dict(structure=True))
