"""C18 — local fermionic operator arrays reproduce the second-quantised operator.

Streams
  (a) `build_local_fermionic_elements` on the real code  vs  the faithful Lean model
      (`SymmModel.buildElements`)  vs  the Lean Fock-space specification (`specAt`)  vs  an
      independent Python Fock-space oracle (below, ~40 lines) — exact rational comparison.
  (b) the five built-in arrays, all supported symmetries, coordinations <= 3: blocks read
      back through the *expected* charge maps vs sign(bra) * Fock matrix of the documented
      operator, vs the Lean model of the builder; nothing discarded by `from_dense`.
  (c) operator action `tensordot(G, psi)` for every total charge vs D.H.D psi (D = the
      fixed diagonal sign of the bra convention), product law, Hermiticity, spectrum.
  (d) finding #18: complex coefficients in `build_local_fermionic_array`.
  (e) `FermionicOperator.__lt__/__eq__/dag` vs the Lean model (`FOp.lt`).
"""

import itertools
import random
import warnings
from fractions import Fraction

import numpy as np

ID = "C18"
LEVEL = "proof"
PROPS_MODULE = "SymmModel.Props.C18All"
THEOREMS = [
    "SymmModel.C18.applyOp_anticomm",
    "SymmModel.C18.applyOp_car",
    "SymmModel.C18.applyWord_sorted",
    "SymmModel.C18.vev_dagger",
    "SymmModel.C18.adjacent_swap_flips_vev",
    "SymmModel.C18.bubble_preserves_vev",
    "SymmModel.C18.sortLoop_sorted",
    "SymmModel.C18.pattern_iff_vev",
    "SymmModel.C18.elements_eq_vev",
    "SymmModel.C18.elements_eq_vev_GRat",
    "SymmModel.C18.dense_eq_spec",
    "SymmModel.C18.elements_hermitian",
    "SymmModel.C18.chargemap_conserved",
    "SymmModel.C18.builtin_terms_neutral",
    "SymmModel.C18.indexmap_is_charge",
] + ["SymmModel.C18." + n for n in ['buildArray_spec', 'buildArray_elem', 'buildArray_valid', 'buildArray_nothing_discarded', 'dense_eq_DH', 'hermitian_action', 'action_matrix_similar', 'action_eq_one', 'action_entry_one', 'action_entries', 'action_eq', 'address_bijection', 'revSign_eq_tau', 'resolution_of_identity', 'fock_product', "product_law_one'", 'product_law', 'completeKets_of_states', 'action_eq_GRat']]
LEAN_FILES = [
    "SymmModel.Model.FermiOps",
    "SymmModel.Driver.FermiOpsH",
    "SymmModel.Proofs.FermiOps",
    "SymmModel.Props.C18",
    "SymmModel.Props.C18b",
    "SymmModel.Props.C18All",
] + ["SymmModel.Proofs.FermiAction%d" % i for i in range(1, 8)]
RULE = (
    "(a) random term lists (0-5 terms, words of length 0-6 over <=4 modes, half of them random "
    "non-vanishing Fock walks; integer / Gaussian-integer / dyadic coefficients incl. 0), 1-3 sites, "
    "bases = random subsets and orders of occupation states with random operator order inside a "
    "state, 15% arbitrary words as basis states, labels int/str/tuple rank-encoded; plus all words "
    "of length <=4 over 2 modes on three basis layouts.  Non-trivial: at least one non-zero element "
    "and at least one contributing term with vev = -1.  (b) builders x symmetries x coordinations "
    "<=3 x random parameters (multiples of 6).  (c) complete bases of 1-3 sites (<=4 modes), "
    "symmetric term lists, state tensors of every total charge with an optional extra leg; "
    "non-trivial: the sign matrix D is not the identity and the result is non-zero."
        '; coefficients as python complex, np.complex128 and np.complex64; exact power-of-two scaling of every coefficient down to 2^-200 (small matrix elements are neither rounded away nor pruned)')
ANCHORS = {
    "fermionic_local_operators.py": [
        "FermionicOperator",
        "_dagger_basis",
        "build_local_fermionic_elements",
        "build_local_fermionic_dense",
        "build_local_fermionic_array",
        "get_spinless_charge_indexmap",
        "get_spinful_charge_indexmap",
        "fermi_hubbard_spinless_local_array",
        "fermi_hubbard_local_array",
        "fermi_number_operator_spinless_local_array",
        "fermi_number_operator_spinful_local_array",
        "fermi_spin_operator_local_array",
    ]
}
ASSUMPTIONS = [
    "labels inside one call are mutually comparable (Python raises TypeError otherwise); they are "
    "rank-encoded order-preservingly as integers for the Lean model",
    "coefficients are small Gaussian integers / dyadic rationals so that float arithmetic is exact",
    "elements_hermitian needs bases whose sites act on different modes (SitesDisjoint); the diagonal "
    "sign is tau(i) = (-1)^(number of pairs of sites whose basis states both have odd length)",
    "the action / product / spectrum clauses rest on C03 (fermionic tensordot) plus this "
    "correspondence; they are checked on the real code exactly (integers), the spectrum numerically",
]
TRUSTED_EXTRA = [
    "the while-loop of the phased sort is modelled with fuel = inversions + 1 (proved sufficient: "
    "C18.sortLoop_sorted)",
]

SYMS = ["Z2", "U1", "Z2Z2", "U1U1"]

# --------------------------------------------------------------------------- Fock oracle
# Independent of symmray: a basis state is the sorted tuple of occupied labels, operators act
# with the Jordan-Wigner sign, vev = amplitude of the vacuum.  An operator is (label, dual).


def fock_apply(state, op):
    amp, occ = state
    lab, dual = op
    if amp == 0 or (lab in occ) == bool(dual):
        return (0, occ)
    sgn = -1 if sum(1 for b in occ if b < lab) % 2 else 1
    if dual:
        return (amp * sgn, tuple(sorted(occ + (lab,))))
    return (amp * sgn, tuple(b for b in occ if b != lab))


def fock_vev(word):
    st = (1, ())
    for op in reversed(word):
        st = fock_apply(st, op)
    return st[0] if st[1] == () else 0


def dag_word(word):
    return [(l, not d) for l, d in reversed(word)]


def ket_of(bases, js):
    return [op for b, j in zip(bases, js) for op in b[j]]


def oracle_elements(terms, bases):
    """documented convention: <i1|<i2|... O |j1>|j2>... with per-site bras, sites not reversed"""
    out = {}
    rng_ = [range(len(b)) for b in bases]
    for idx in itertools.product(*(rng_ + rng_)):
        n = len(bases)
        bra = [op for b, i in zip(bases, idx[:n]) for op in dag_word(b[i])]
        ket = ket_of(bases, idx[n:])
        v = sum(c * fock_vev(bra + list(t) + ket) for c, t in terms)
        if v != 0:
            out[idx] = v
    return out


def fock_matrix(terms, bases):
    """proper matrix <i|O|j>, |j> = ket_j|0>, <i| = (|i>)^dagger; C order of site multi-indices"""
    idxs = list(itertools.product(*[range(len(b)) for b in bases]))
    M = np.zeros((len(idxs), len(idxs)), dtype=complex)
    for a, i in enumerate(idxs):
        bra = dag_word(ket_of(bases, i))
        for b, j in enumerate(idxs):
            ket = ket_of(bases, j)
            M[a, b] = sum(c * fock_vev(bra + list(t) + ket) for c, t in terms)
    return M, idxs


def bra_sign(bases, idxs):
    """D: sign between the documented bra <i1|<i2|.. and the proper bra ..<i2|<i1|"""
    out = []
    for i in idxs:
        p = [len(b[k]) % 2 for b, k in zip(bases, i)]
        npairs = sum(p[s] * p[t] for s in range(len(p)) for t in range(s + 1, len(p)))
        out.append(-1 if npairs % 2 else 1)
    return np.array(out)


# --------------------------------------------------------------------------- encodings


def enc_scalar(z):
    z = complex(z)
    re, im = Fraction(z.real), Fraction(z.imag)
    if re.denominator == 1 and im.denominator == 1:
        return int(re) if im == 0 else [int(re), int(im)]
    return [re.numerator, re.denominator, im.numerator, im.denominator]


def dec_scalar(s):
    if isinstance(s, int):
        return (Fraction(s), Fraction(0))
    if len(s) == 2:
        return (Fraction(s[0]), Fraction(s[1]))
    return (Fraction(s[0], s[1]), Fraction(s[2], s[3]))


def canon_val(z):
    z = complex(z)
    return (Fraction(z.real), Fraction(z.imag))


def canon_entries(d):
    """dict idx -> number  =>  sorted list of (idx, (re, im)) without zeros (strings for pickling)"""
    out = []
    for k, v in d.items():
        c = canon_val(v)
        if c != (0, 0):
            out.append((tuple(int(i) for i in k), (str(c[0]), str(c[1]))))
    return sorted(out)


def canon_lean(entries):
    out = []
    for idx, s in entries:
        c = dec_scalar(s)
        if c != (0, 0):
            out.append((tuple(idx), (str(c[0]), str(c[1]))))
    return sorted(out)


def rank_encode(terms, bases):
    labs = sorted({l for _, t in terms for l, _ in t} | {l for b in bases for st in b for l, _ in st})
    rk = {l: i for i, l in enumerate(labs)}
    return (
        [[enc_scalar(c), [[rk[l], bool(d)] for l, d in t]] for c, t in terms],
        [[[[rk[l], bool(d)] for l, d in st] for st in b] for b in bases],
    )


def to_sr(terms, bases, rng):
    """hand the case to symmray either as FermionicOperator objects or as (label, '+'/'-') pairs"""
    import symmray as sr

    def op(l, d):
        return sr.FermionicOperator(l, d) if rng.random() < 0.6 else (l, "+" if d else "-")

    return (
        [(c, tuple(op(l, d) for l, d in t)) for c, t in terms],
        [[tuple(op(l, d) for l, d in st) for st in b] for b in bases],
    )


# --------------------------------------------------------------------------- generators

LABEL_POOLS = {
    "int": list(range(-4, 12)),
    "str": ["a", "b", "au", "ad", "bu", "bd", "c", "x1", "x10", "x2", "B", "_"],
    "tuple": [(s, k) for s in (0, 1, 2, 10) for k in ("d", "u")] ,
}


def rand_coeff(rng):
    r = rng.random()
    if r < 0.08:
        return rng.choice([0, 0.0, 0j])
    if r < 0.5:
        return rng.choice([-1, 1]) * rng.randint(1, 6)
    if r < 0.65:
        return float(rng.choice([-1, 1]) * rng.randint(1, 12)) / 4
    if r < 0.9:
        return complex(rng.randint(-3, 3), rng.choice([-1, 1]) * rng.randint(1, 3))
    return complex(rng.randint(-6, 6), rng.randint(-6, 6)) / 2


def rand_walk_word(rng, labels, length):
    """a word that does not vanish on some occupation state (built right to left)"""
    occ = set(l for l in labels if rng.random() < 0.4)
    word = []
    for _ in range(length):
        l = rng.choice(labels)
        d = l not in occ
        (occ.add if d else occ.discard)(l)
        word.insert(0, (l, d))
    return word


def rand_word(rng, labels, maxlen=6):
    n = rng.randint(0, maxlen)
    if rng.random() < 0.55:
        return rand_walk_word(rng, labels, n)
    return [(rng.choice(labels), rng.random() < 0.5) for _ in range(n)]


def occupation_states(rng, modes):
    sts = []
    for k in range(len(modes) + 1):
        for sub in itertools.combinations(modes, k):
            sub = list(sub)
            rng.shuffle(sub)
            sts.append([(l, True) for l in sub])
    return sts


def gen_elements_case(rng):
    ltype = rng.choice(["int", "str", "tuple"])
    nmodes = rng.randint(1, 4)
    labels = rng.sample(LABEL_POOLS[ltype], nmodes)
    if rng.random() < 0.01:
        nsites = 0
    else:
        nsites = rng.choice([1, 1, 2, 2, 2, 3])
    site_modes = [[] for _ in range(nsites)]
    if nsites:
        for l in labels:
            site_modes[rng.randrange(nsites)].append(l)
    bases = []
    for s in range(nsites):
        sts = occupation_states(rng, site_modes[s])
        if rng.random() < 0.5:
            k = rng.randint(0 if rng.random() < 0.05 else 1, len(sts))
            sts = rng.sample(sts, k)
        rng.shuffle(sts)
        if rng.random() < 0.2:
            # a state repeated, or an arbitrary word as a "basis state"
            for _ in range(rng.randint(1, 2)):
                if rng.random() < 0.3 and sts:
                    sts.insert(rng.randrange(len(sts) + 1), list(rng.choice(sts)))
                else:
                    w = [(rng.choice(labels), rng.random() < 0.7) for _ in range(rng.randint(1, 3))]
                    sts.insert(rng.randrange(len(sts) + 1), w)
        bases.append(sts)
    # keep the location product small
    while nsites and np.prod([max(len(b), 1) for b in bases]) > 16:
        b = max(bases, key=len)
        b.pop(rng.randrange(len(b)))
    terms = [(rand_coeff(rng), rand_word(rng, labels)) for _ in range(rng.randint(0, 5))]
    if terms and rng.random() < 0.2:
        c, t = rng.choice(terms)
        terms.append((rand_coeff(rng), list(t)))  # repeated word: accumulation / cancellation
    if terms and rng.random() < 0.1:
        c, t = rng.choice(terms)
        if c != 0:
            terms.append((-c, list(t)))  # exact cancellation
    return dict(ltype=ltype, terms=terms, bases=bases)


def exhaustive_cases():
    ops = [(0, False), (0, True), (1, False), (1, True)]
    layouts = [
        [[[], [(0, True)]], [[], [(1, True)]]],
        [[[], [(1, True)], [(0, True)], [(0, True), (1, True)]]],
        [[[(1, True)], []], [[], [(0, True)]]],
    ]
    out = []
    for n in range(5):
        for w in itertools.product(ops, repeat=n):
            for lay in layouts:
                out.append(dict(ltype="int", terms=[(1, list(w))], bases=lay))
    return out


# --------------------------------------------------------------------------- stream (a) worker


def run_impl_elements(case, rng):
    import symmray as sr

    terms, bases = to_sr(case["terms"], case["bases"], rng)
    try:
        res = sr.build_local_fermionic_elements(terms, bases)
    except ValueError:
        return "ValueError"
    return canon_entries(res)


def elements_chunk(seed, chunk, n, exhaustive_slice):
    rng = random.Random(f"C18-a-{seed}-{chunk}")
    cases = []
    if exhaustive_slice is not None:
        cases = exhaustive_slice
    else:
        cases = [gen_elements_case(rng) for _ in range(n)]
    out = []
    for case in cases:
        impl = run_impl_elements(case, rng)
        if len(case["bases"]) == 0:
            orc = "ValueError"
            neg = False
        else:
            orc = canon_entries(oracle_elements(case["terms"], case["bases"]))
            neg = bool(orc) and any(
                c != 0 and fock_vev(
                    [op for b, i in zip(case["bases"], idx[: len(case["bases"])]) for op in dag_word(b[i])]
                    + list(t)
                    + ket_of(case["bases"], idx[len(case["bases"]):])
                ) == -1
                for idx, _ in orc
                for c, t in case["terms"]
            )
        lt, lb = rank_encode(case["terms"], case["bases"])
        out.append(dict(case=case, lean=dict(kind="buildElements", terms=lt, bases=lb),
                        impl=impl, oracle=orc, nontrivial=neg))
    return out


# --------------------------------------------------------------------------- reading arrays back


def charge_groups(imap):
    g = {}
    for i, c in enumerate(imap):
        g.setdefault(c, []).append(i)
    return g


def lin_tensor(x, imaps):
    """dense tensor in the linear-index order of `imaps`, read from the (sign-synchronised)
    blocks: position p of the block of charge c on axis k is the p-th linear index of charge c."""
    if getattr(x, "fermionic", False):
        x = x.phase_sync()
    out = np.zeros([len(m) for m in imaps], dtype=complex)
    gs = [charge_groups(m) for m in imaps]
    for sector, blk in x.blocks.items():
        blk = np.asarray(blk)
        for pos in itertools.product(*[range(s) for s in blk.shape]):
            lin = tuple(gs[k][sector[k]][pos[k]] for k in range(len(pos)))
            out[lin] = blk[pos]
    return out


def state_charge(sym, state, species):
    """charge of a basis state: number of particles (per species for the product groups)"""
    n = [0, 0]
    for l, d in state:
        n[species.get(l, 0)] += 1 if d else -1
    if sym == "Z2":
        return (n[0] + n[1]) % 2
    if sym == "U1":
        return n[0] + n[1]
    if sym == "Z2Z2":
        return (n[0] % 2, n[1] % 2)
    return (n[0], n[1])


# --------------------------------------------------------------------------- stream (b)

BUILTIN_BASIS_A = [[], [("ad", True)], [("au", True)], [("au", True), ("ad", True)]]
BUILTIN_BASIS_B = [[], [("bd", True)], [("bu", True)], [("bu", True), ("bd", True)]]
SPECIES = {"au": 0, "bu": 0, "ad": 1, "bd": 1, "a": 0, "b": 0}


def n_op(l):
    return [(l, True), (l, False)]


def expected_builtin(name, p):
    """term lists written from the README formulas (independent of the source)"""
    if name == "hubbard_spinless":
        t, V, mua, mub, ca, cb = p
        terms = [(-t, [("a", True), ("b", False)]), (-t, [("b", True), ("a", False)]),
                 (V, n_op("a") + n_op("b")),
                 (Fraction(-mua, ca), n_op("a")), (Fraction(-mub, cb), n_op("b"))]
        bases = [[[], [("a", True)]], [[], [("b", True)]]]
    elif name == "hubbard":
        t, Ua, Ub, mua, mub, ca, cb = p
        terms = [(-t, [(x + s, True), (y + s, False)]) for s in "ud" for x, y in (("a", "b"), ("b", "a"))]
        terms += [(Fraction(Ua, ca), n_op("au") + n_op("ad")), (Fraction(Ub, cb), n_op("bu") + n_op("bd"))]
        terms += [(Fraction(-mua, ca), n_op("a" + s)) for s in "ud"]
        terms += [(Fraction(-mub, cb), n_op("b" + s)) for s in "ud"]
        bases = [BUILTIN_BASIS_A, BUILTIN_BASIS_B]
    elif name == "number_spinless":
        terms = [(1, n_op("a"))]
        bases = [[[], [("a", True)]]]
    elif name == "number_spinful":
        terms = [(1, n_op("au")), (1, n_op("ad"))]
        bases = [BUILTIN_BASIS_A]
    elif name == "spin":
        terms = [(Fraction(1, 2), n_op("au")), (Fraction(-1, 2), n_op("ad"))]
        bases = [BUILTIN_BASIS_A]
    else:
        raise KeyError(name)
    return [(complex(c), t) for c, t in terms], bases


def call_builtin(name, sym, p):
    import symmray as sr

    if name == "hubbard_spinless":
        t, V, mua, mub, ca, cb = p
        mu = mua if mua == mub else (mua, mub)
        return sr.fermi_hubbard_spinless_local_array(sym, t=t, V=V, mu=mu, coordinations=(ca, cb))
    if name == "hubbard":
        t, Ua, Ub, mua, mub, ca, cb = p
        U = Ua if Ua == Ub else (Ua, Ub)
        mu = mua if mua == mub else (mua, mub)
        return sr.fermi_hubbard_local_array(sym, t=t, U=U, mu=mu, coordinations=(ca, cb))
    if name == "number_spinless":
        return sr.fermi_number_operator_spinless_local_array(sym)
    if name == "number_spinful":
        return sr.fermi_number_operator_spinful_local_array(sym)
    return sr.fermi_spin_operator_local_array(sym)


def lean_builtin_params(name, p):
    if name == "hubbard_spinless":
        t, V, mua, mub, ca, cb = p
        return [t, V, mua // ca, mub // cb]
    if name == "hubbard":
        t, Ua, Ub, mua, mub, ca, cb = p
        return [t, Ua // ca, Ub // cb, mua // ca, mub // cb]
    if name == "spin":
        return [[1, 2, 0, 1]]
    return [1]


def stream_builtin(ctx):
    from harness import gen

    rng = ctx.rng
    jobs = []
    six = lambda: 6 * rng.randint(-4, 4)  # noqa: E731
    nrep = 1 if ctx.tier == "quick" else 4
    for sym in SYMS:
        for ca, cb in itertools.product((1, 2, 3), repeat=2):
            for _ in range(nrep):
                same = rng.random() < 0.4
                mua = six()
                Ua = six()
                jobs.append(("hubbard", sym, (rng.randint(-5, 5), Ua, Ua if same else six(), mua, mua if same else six(), ca, cb)))
                jobs.append(("hubbard_spinless", sym, (rng.randint(-5, 5), rng.randint(-9, 9), mua, mua if same else six(), ca, cb)))
        for name in ("number_spinless", "number_spinful", "spin"):
            jobs.append((name, sym, ()))
    lean_cases = [dict(id=i, kind="builtin", name=n, sym=s, params=lean_builtin_params(n, p))
                  for i, (n, s, p) in enumerate(jobs)]
    lean = ctx.model(lean_cases)
    for i, (name, sym, p) in enumerate(jobs):
        ctx.evaluations += 1
        ctx.stat(f"b:{name}:{sym}")
        case = dict(stream="builtin", name=name, sym=sym, params=list(p))
        spinless = name in ("hubbard_spinless", "number_spinless")
        terms, bases = expected_builtin(name, p)
        if spinless and sym in ("Z2Z2", "U1U1"):
            # documented: spinless models support Z2 and U1 only
            try:
                call_builtin(name, sym, p)
                ctx.violation("spinless builder accepted an unsupported symmetry", case, op=name)
            except ValueError:
                if lean is not None and lean[i].get("indexmap", 0) is not None:
                    ctx.correspondence_broken("builtin/indexmap", f"model accepts {name} {sym}")
            continue
        imaps_site = [[state_charge(sym, st, SPECIES) for st in b] for b in bases]
        n = len(bases)
        imaps = imaps_site * 2
        H, idxs = fock_matrix(terms, bases)
        D = bra_sign(bases, idxs)
        expect = (D[:, None] * H).reshape([len(b) for b in bases] * 2)
        # every non-zero element must sit in a charge-conserving sector of (ket.., bra..) duals
        duals = [False] * n + [True] * n
        bad_sector = [
            idx for idx in zip(*np.nonzero(expect))
            if gen.py_sector_charge(sym, [imaps[k][idx[k]] for k in range(2 * n)], duals)
            != gen.py_combine(sym, [])
        ]
        if bad_sector:
            ctx.correspondence_broken("builtin/oracle", f"oracle element outside conserving sector {case}")
            continue
        with warnings.catch_warnings(record=True) as wlist:
            warnings.simplefilter("always")
            try:
                G = call_builtin(name, sym, p)
                got = lin_tensor(G, imaps)
                shape_ok = all(
                    dict(ix.chargemap) == {c: len(g) for c, g in charge_groups(m).items()}
                    for ix, m in zip(G.indices, imaps)
                )
                err = None
            except Exception as e:  # noqa
                got, shape_ok, err = None, False, f"{type(e).__name__}: {e}"
        discarded = [str(w.message) for w in wlist if "non-zero elements" in str(w.message)]
        ok = (
            err is None and shape_ok and np.array_equal(got, expect)
            and [bool(ix.dual) for ix in G.indices] == duals
            and G.charge == gen.py_combine(sym, []) and not discarded
        )
        if not ok:
            ctx.violation(
                "built-in operator array differs from sign(bra) x Fock matrix of the documented operator"
                + (" (from_dense discarded non-zero elements)" if discarded else ""),
                case, op=name,
                detail=dict(error=err, chargemaps_ok=shape_ok, discarded=discarded[:2],
                            got=None if got is None else [enc_scalar(v) for v in got.reshape(-1)],
                            expected=[enc_scalar(v) for v in expect.reshape(-1)]),
            )
            continue
        if np.any(expect != 0) and np.any(D < 0):
            ctx.mark_nontrivial(("b", name, sym, p))
        if lean is not None:
            ctx.disagreements_checked += 1
            r = lean[i]
            if "bad" in r:
                ctx.correspondence_broken("builtin/driver", r["bad"])
                continue
            mdense = [dec_scalar(s) for s in r["dense"]]
            idense = [canon_val(v) for v in got.reshape(-1)]
            mmap = None if r["indexmap"] is None else [tuple(c) if sym in ("Z2Z2", "U1U1") else c[0] for c in r["indexmap"]]
            if mdense != idense or r["shape"] != list(got.shape) or mmap != imaps_site[0]:
                ctx.correspondence_broken("builtin/model", f"Lean model of {name} {sym} {p} differs from implementation = oracle")


# --------------------------------------------------------------------------- stream (c) worker


def net_charge_zero(sym, word, species):
    c = state_charge(sym, word, species)
    return c in (0, (0, 0))


def rand_symmetric_word(rng, sym, labels, species, maxlen=4):
    for _ in range(200):
        n = rng.randint(1, maxlen)
        w = rand_walk_word(rng, labels, n) if rng.random() < 0.8 else [
            (rng.choice(labels), rng.random() < 0.5) for _ in range(n)]
        if net_charge_zero(sym, w, species):
            return w
    l = rng.choice(labels)
    return [(l, True), (l, False)]


def gen_action_case(rng):
    sym = rng.choice(SYMS)
    ltype = rng.choice(["int", "str", "tuple"])
    nsites = rng.choice([1, 2, 2, 3])
    per_site = [rng.randint(1, 2) for _ in range(nsites)]
    while sum(per_site) > 4:
        per_site[rng.randrange(nsites)] = 1
    labels = rng.sample(LABEL_POOLS[ltype], sum(per_site))
    species = {l: rng.randint(0, 1) for l in labels}
    it = iter(labels)
    site_modes = [[next(it) for _ in range(k)] for k in per_site]
    bases = []
    for ms in site_modes:
        sts = occupation_states(rng, ms)
        rng.shuffle(sts)
        bases.append(sts)
    mk = lambda: [(rng.choice([-3, -2, -1, 1, 2, 3]), rand_symmetric_word(rng, sym, labels, species))  # noqa: E731
                  for _ in range(rng.randint(1, 3))]
    return dict(sym=sym, bases=bases, species=species, terms1=mk(), terms2=mk(),
                extra=rng.random() < 0.4)


def build_array(sym, terms, bases, imaps_site, rng):
    import symmray as sr

    t, b = to_sr(terms, bases, rng)
    # index maps as sequences or as dicts (the documented type), independently per site
    maps = [dict(enumerate(m)) if rng.random() < 0.5 else list(m) for m in imaps_site]
    if rng.random() < 0.3:
        maps = [dict(enumerate(m)) for m in imaps_site]
    return sr.build_local_fermionic_array(t, b, sym, maps)


def herm_terms(terms):
    return list(terms) + [(np.conj(c), dag_word(t)) for c, t in terms]


def action_matrix(G, sym, imaps_site, rng):
    """matrix of psi -> tensordot(G, psi) on basis tensors (one application per basis state)"""
    import symmray as sr
    from harness import gen

    n = len(imaps_site)
    dims = [len(m) for m in imaps_site]
    idxs = list(itertools.product(*[range(d) for d in dims]))
    A = np.zeros((len(idxs), len(idxs)), dtype=complex)
    gs = [charge_groups(m) for m in imaps_site]
    indices = [sr.BlockIndex({c: len(g) for c, g in gs[k].items()}, dual=False) for k in range(n)]
    cls, kw = gen.array_class(sym, True, True)
    for col, j in enumerate(idxs):
        sector = tuple(imaps_site[k][j[k]] for k in range(n))
        charge = gen.py_combine(sym, list(sector))
        blk = np.zeros([len(gs[k][sector[k]]) for k in range(n)])
        blk[tuple(gs[k][sector[k]].index(j[k]) for k in range(n))] = 1.0
        kw2 = dict(kw)
        if gen.py_parity(sym, charge):
            kw2["oddpos"] = 99
        e = cls(indices=indices, charge=charge, blocks={sector: blk}, **kw2)
        out = sr.tensordot(G, e, axes=[tuple(range(n, 2 * n)), tuple(range(n))])
        A[:, col] = lin_tensor(out, imaps_site).reshape(-1)
    return A


def action_chunk(seed, chunk, n):
    import symmray as sr
    from harness import gen

    rng = random.Random(f"C18-c-{seed}-{chunk}")
    results = []
    for _ in range(n):
        case = gen_action_case(rng)
        sym, bases, species = case["sym"], case["bases"], case["species"]
        ns = len(bases)
        t1, t2 = case["terms1"], case["terms2"]
        t21 = [(c2 * c1, list(w2) + list(w1)) for c2, w2 in t2 for c1, w1 in t1]
        th = herm_terms(t1)
        imaps_site = [[state_charge(sym, st, species) for st in b] for b in bases]
        res = dict(case=dict(stream="action", sym=sym, bases=bases, terms1=t1, terms2=t2,
                             species=[[repr(k), v] for k, v in species.items()]),
                   problems=[], convention_only=[], napplied=0, nontrivial=False, stats={})
        H1, idxs = fock_matrix(t1, bases)
        H2, _ = fock_matrix(t2, bases)
        H21, _ = fock_matrix(t21, bases)
        Hh, _ = fock_matrix(th, bases)
        D = bra_sign(bases, idxs)
        conj = lambda H: D[:, None] * H * D[None, :]  # noqa: E731
        lt, lb = rank_encode(th, bases)
        res["lean"] = dict(kind="buildElements", terms=lt, bases=lb)
        res["fock_h"] = [enc_scalar(v) for v in Hh.reshape(-1)]
        if not np.allclose(H21, H2 @ H1) or not np.allclose(Hh, Hh.conj().T):
            res["oracle_bug"] = "Fock oracle: product or Hermiticity of the oracle matrices fails"
            results.append(res)
            continue
        with warnings.catch_warnings(record=True) as wl:
            warnings.simplefilter("always")
            try:
                G1 = build_array(sym, t1, bases, imaps_site, rng)
                G2 = build_array(sym, t2, bases, imaps_site, rng)
                G21 = build_array(sym, t21, bases, imaps_site, rng)
                Gh = build_array(sym, th, bases, imaps_site, rng)
            except Exception as e:  # noqa
                res["problems"].append(f"builder raised {type(e).__name__}: {e}")
                results.append(res)
                continue
        if any("non-zero elements" in str(w.message) for w in wl):
            res["problems"].append("from_dense discarded non-zero elements of a symmetric operator")
        dims = [len(b) for b in bases]
        try:
            N = len(idxs)
            # dense form: documented bra convention  M = D.H
            for nm, G, H in (("G1", G1, H1), ("G21", G21, H21), ("Gh", Gh, Hh)):
                if not np.array_equal(lin_tensor(G, imaps_site * 2).reshape(N, N), D[:, None] * H):
                    res["problems"].append(f"dense form of {nm} differs from sign(bra) x Fock matrix")
            # arrays composed = array of the product operator
            ax = [tuple(range(ns, 2 * ns)), tuple(range(ns))]
            G2G1 = sr.tensordot(G2, G1, axes=ax)
            if not np.array_equal(lin_tensor(G2G1, imaps_site * 2), lin_tensor(G21, imaps_site * 2)):
                res["problems"].append("tensordot(G2, G1) differs from the array of the product operator")
            # state tensors of every total charge
            site_ix = [sr.BlockIndex({c: len(g) for c, g in charge_groups(m).items()}, dual=False)
                       for m in imaps_site]
            extra_ix = gen.rand_index(rng, sym, 2, 2) if case["extra"] else None
            indices = site_ix + ([extra_ix] if extra_ix is not None else [])
            duals = [False] * ns + ([extra_ix.dual] if extra_ix is not None else [])
            charges = sorted({gen.py_sector_charge(sym, s, duals)
                              for s in itertools.product(*[sorted(ix.chargemap) for ix in indices])})
            ex_map = [] if extra_ix is None else [[c for c in sorted(extra_ix.chargemap)
                                                   for _ in range(extra_ix.chargemap[c])]]
            maps = imaps_site + ex_map
            for charge in charges:
                psi = gen.rand_array(rng, sym, indices=indices, fermi=True, charge=charge,
                                     keep=rng.choice([0.6, 1.0]), label=rng.randint(1, 50),
                                     pending=rng.random() < 0.3)
                v = lin_tensor(psi, maps).reshape(N, -1)
                o1 = sr.tensordot(G1, psi, axes=ax)
                o21 = sr.tensordot(G2, o1, axes=ax)
                o21b = sr.tensordot(G21, psi, axes=ax)
                w1 = lin_tensor(o1, maps).reshape(N, -1)
                w21 = lin_tensor(o21, maps).reshape(N, -1)
                w21b = lin_tensor(o21b, maps).reshape(N, -1)
                res["napplied"] += 1
                key = f"c:{sym}:parity{gen.py_parity(sym, charge)}"
                res["stats"][key] = res["stats"].get(key, 0) + 1
                if not np.array_equal(w21, w21b):
                    res["problems"].append(f"charge {charge}: applying G1 then G2 differs from applying the array of the product")
                if not (np.array_equal(w1, conj(H1) @ v) and np.array_equal(w21b, conj(H21) @ v)):
                    res["convention_only"].append(f"charge {charge}: tensordot(G, psi) differs from D.H.D psi")
                if np.any(D < 0) and np.any(w1 != 0):
                    res["nontrivial"] = True
            # Hermitian term set -> Hermitian map with the exact spectrum
            if N <= 16:
                A = action_matrix(Gh, sym, imaps_site, rng)
                if not np.array_equal(A, A.conj().T):
                    res["problems"].append("Hermitian term set gives a non-Hermitian map")
                else:
                    ev = np.linalg.eigvalsh(A)
                    ev0 = np.linalg.eigvalsh(Hh)
                    if not np.allclose(ev, ev0, atol=1e-9 * max(1.0, np.abs(ev0).max())):
                        res["problems"].append("spectrum of the map differs from the spectrum of the operator")
                if not np.array_equal(A, conj(Hh)):
                    res["convention_only"].append("action matrix of the Hermitian operator differs from D.H.D")
                res["stats"]["c:spectra"] = 1
        except Exception as e:  # noqa  (e.g. blocks filed under sectors the index maps do not imply)
            res["problems"].append(f"observing the built arrays failed: {type(e).__name__}: {e} (blocks are not filed "
                                   f"under the sectors the supplied index maps imply?)")
        results.append(res)
    return results


# --------------------------------------------------------------------------- streams (d), (e)


def stream_complex(ctx):
    """finding #18: complex coefficients must survive build_local_fermionic_array"""
    import symmray as sr

    rng = ctx.rng
    for k in range(6 if ctx.tier == "quick" else 30):
        c = complex(rng.randint(-3, 3), rng.choice([-1, 1]) * rng.randint(1, 3))
        # the coefficient as a python complex and as numpy complex scalars (np.complex64 is not a python complex)
        ctype = [complex, np.complex128, np.complex64][k % 3]
        terms = [(ctype(c), [("a", True), ("b", False)]), (ctype(np.conj(c)), [("b", True), ("a", False)])]
        bases = [[[], [("a", True)]], [[], [("b", True)]]]
        sym = rng.choice(["Z2", "U1"])
        ctx.evaluations += 1
        ctx.stat("d:complex:" + ctype.__name__)
        H, idxs = fock_matrix(terms, bases)
        expect = (bra_sign(bases, idxs)[:, None] * H).reshape(2, 2, 2, 2)
        with warnings.catch_warnings(record=True) as wl:
            warnings.simplefilter("always")
            t, b = to_sr(terms, bases, rng)
            try:
                G = sr.build_local_fermionic_array(t, b, sym, [[0, 1], [0, 1]])
                got = lin_tensor(G, [[0, 1]] * 4)
                dt = str(np.asarray(next(iter(G.blocks.values()))).dtype)
            except Exception as e:  # noqa
                got, dt = None, f"{type(e).__name__}: {e}"
        if got is None or not np.array_equal(got, expect):
            ctx.violation(
                "build_local_fermionic_array with complex coefficients does not reproduce the operator "
                "(float64 dense array, imaginary parts discarded)",
                dict(stream="complex", sym=sym, terms=[[enc_scalar(cc), [[l, d] for l, d in w]] for cc, w in terms]),
                triggers={"complex_coefficients"}, op="build_local_fermionic_array",
                detail=dict(block_dtype=dt, warnings=[str(w.message)[:80] for w in wl][:2],
                            got=None if got is None else [enc_scalar(v) for v in got.reshape(-1)],
                            expected=[enc_scalar(v) for v in expect.reshape(-1)]),
            )
            return


def stream_scaling(ctx):
    """the operator array is linear in the coefficients: scaling every coefficient by a power of two
    (exact in floating point, down to 2^-200) scales every stored entry by exactly that factor — in
    particular genuinely small matrix elements are neither rounded away nor pruned"""
    import symmray as sr

    rng = ctx.rng
    jobs = []
    for sym in SYMS:
        for _ in range(2 if ctx.tier == "quick" else 10):
            jobs.append(("hubbard", sym, (rng.randint(1, 5), 6 * rng.randint(1, 4), 6 * rng.randint(1, 4),
                                          6 * rng.randint(1, 4), 6 * rng.randint(-4, -1), rng.randint(1, 3),
                                          rng.randint(1, 3))))
            if sym in ("Z2", "U1"):
                jobs.append(("hubbard_spinless", sym, (rng.randint(1, 5), rng.randint(1, 9), 6 * rng.randint(1, 4),
                                                        6 * rng.randint(-4, -1), rng.randint(1, 3), rng.randint(1, 3))))
    for name, sym, p in jobs:
        k = rng.choice([20, 41, 45, 60, 200])
        sc = 2.0 ** -k
        ncoef = len(p) - 2
        ps = tuple(float(v) * sc for v in p[:ncoef]) + tuple(p[ncoef:])
        # mixed magnitudes: only the hopping is tiny, next to O(1) interactions
        pm = (float(p[0]) * sc,) + tuple(p[1:])
        ctx.evaluations += 1
        ctx.stat(f"f:scaling:{name}:{sym}")
        case = dict(stream="scaling", name=name, sym=sym, params=list(p), log2_scale=-k)
        try:
            G, Gs, Gm = call_builtin(name, sym, p), call_builtin(name, sym, ps), call_builtin(name, sym, pm)
            G0 = call_builtin(name, sym, (0,) + tuple(p[1:]))
        except Exception as e:  # noqa
            ctx.violation(f"{name} builder raised {type(e).__name__}: {e}", case, op=name)
            return
        bad = None
        ref = {s_: np.asarray(b) for s_, b in G.phase_sync().blocks.items()}
        got = {s_: np.asarray(b) for s_, b in Gs.phase_sync().blocks.items()}
        for s_, b in ref.items():
            g = got.get(s_)
            if g is None:
                if np.any(b != 0):
                    bad = f"sector {s_} disappears when all coefficients are scaled by 2^-{k}"
                    break
            elif not np.array_equal(g, b * sc):
                bad = f"sector {s_} is not scaled exactly by 2^-{k}"
                break
        if bad is None:
            # hopping part alone: G(t*sc, rest) - G(0, rest) == sc * (G(t, rest) - G(0, rest)) up to rounding of
            # the O(1) entries; compare only entries where the rest contributes nothing
            r0 = {s_: np.asarray(b) for s_, b in G0.phase_sync().blocks.items()}
            gm = {s_: np.asarray(b) for s_, b in Gm.phase_sync().blocks.items()}
            for s_, b in ref.items():
                z = r0.get(s_, np.zeros_like(b))
                pure = (z == 0) & (b != 0)
                g = gm.get(s_, np.zeros_like(b))
                if np.any(pure) and not np.array_equal(g[pure], b[pure] * sc):
                    bad = f"a hopping of size 2^-{k} next to O(1) couplings is lost or altered in sector {s_}"
                    break
        if bad:
            ctx.violation(bad, case, triggers={"tiny_coefficients"}, op=name)
            return


def stream_order(ctx):
    import symmray as sr

    rng = ctx.rng
    n = 300 if ctx.tier == "quick" else 3000
    pairs, lean_pairs = [], []
    for _ in range(n):
        ltype = rng.choice(["int", "str", "tuple"])
        pool = LABEL_POOLS[ltype]
        la, lb = rng.choice(pool), rng.choice(pool) if rng.random() < 0.8 else None
        if lb is None:
            lb = la
        da, db = rng.random() < 0.5, rng.random() < 0.5
        rk = {l: i for i, l in enumerate(sorted({la, lb}))}
        pairs.append(((la, da), (lb, db)))
        lean_pairs.append([[rk[la], da], [rk[lb], db]])
    lean = ctx.model([dict(id=0, kind="opLt", pairs=lean_pairs)])
    for k, ((la, da), (lb, db)) in enumerate(pairs):
        ctx.evaluations += 1
        a, b = sr.FermionicOperator(la, da), sr.FermionicOperator(lb, db)
        lt, eq = bool(a < b), bool(a == b)
        # documented order: creation operators before annihilation operators; annihilation
        # ascending by label, creation descending ("dual operators are reflected")
        exp_lt = (da and not db) or (da and db and la > lb) or (not da and not db and la < lb)
        exp_eq = (la, da) == (lb, db)
        dg = a.dag
        if lt != exp_lt or eq != exp_eq or (dg.label, bool(dg.dual)) != (la, not da):
            ctx.violation("FermionicOperator ordering / equality / dag differs from the documented order",
                          dict(stream="order", a=[repr(la), da], b=[repr(lb), db], lt=lt, eq=eq), op="FermionicOperator")
            return
        if lean is not None:
            r = lean[0]
            if "bad" in r or r["lt"][k] != lt or r["eq"][k] != eq:
                ctx.correspondence_broken("order/model", f"FOp.lt/eqv differ from implementation on {pairs[k]}")
                return
    ctx.stat("e:order_pairs", n)


# --------------------------------------------------------------------------- driver


def jsonable_case(case):
    def w(word):
        return [[repr(l), bool(d)] for l, d in word]

    out = dict(case)
    if "terms" in out:
        out["terms"] = [[enc_scalar(c), w(t)] for c, t in out["terms"]]
    for k in ("terms1", "terms2"):
        if k in out:
            out[k] = [[enc_scalar(c), w(t)] for c, t in out[k]]
    if "bases" in out:
        out["bases"] = [[w(st) for st in b] for b in out["bases"]]
    return out


def run(ctx):
    quick = ctx.tier == "quick"
    mod = "harness.props.c18"

    # ---- (a) elements
    nchunks = 16
    per = 200 if quick else 3000
    args = [(ctx.seed, k, per, None) for k in range(nchunks)]
    ex = exhaustive_cases()
    if quick:
        r = random.Random(f"C18-ex-{ctx.seed}")
        ex = [c for c in ex if len(c["terms"][0][1]) <= 3] + r.sample(
            [c for c in ex if len(c["terms"][0][1]) == 4], 150)
    else:
        ctx.exhaustive = True
    exn = 8
    args += [(ctx.seed, 100 + k, 0, ex[k::exn]) for k in range(exn)]
    recs = [r for chunk in ctx.pmap(mod, "elements_chunk", args) for r in chunk]
    for i, r in enumerate(recs):
        r["lean"]["id"] = i
    lean = ctx.model([r["lean"] for r in recs])
    for i, r in enumerate(recs):
        ctx.evaluations += 1
        case = jsonable_case(dict(stream="elements", **r["case"]))
        ctx.stat(f"a:sites{len(r['case']['bases'])}")
        ctx.stat(f"a:labels:{r['case']['ltype']}")
        if r["nontrivial"]:
            ctx.mark_nontrivial(("a", repr(case)))
        if i % 400 == 0:
            ctx.sample(dict(case=case, elements=r["impl"] if isinstance(r["impl"], str) else [[list(k), v] for k, v in r["impl"][:6]]))
        impl_ok = r["impl"] == r["oracle"]
        if not impl_ok:
            ctx.violation(
                "build_local_fermionic_elements differs from the vacuum expectation values "
                "<i1|<i2|.. term |j1>|j2>.. of the Fock-space oracle",
                case, op="build_local_fermionic_elements",
                detail=dict(impl=r["impl"], oracle=r["oracle"]),
            )
        if lean is None:
            continue
        m = lean[i]
        if "bad" in m:
            ctx.correspondence_broken("elements/driver", m["bad"])
            continue
        ctx.disagreements_checked += 1
        model = "ValueError" if m["model"] is None else canon_lean(m["model"])
        spec = canon_lean(m["spec"])
        if model != "ValueError" and model != spec:
            ctx.correspondence_broken("elements/model-vs-spec",
                                      f"Lean model and Lean specification differ (theorem elements_eq_vev!) on {case}")
        if impl_ok and model != r["impl"]:
            ctx.correspondence_broken("elements/model", f"Lean model differs from implementation = oracle on {case}")
        if impl_ok and model != "ValueError" and spec != r["oracle"]:
            ctx.correspondence_broken("elements/spec", f"Lean spec differs from the Python oracle on {case}")

    # ---- (b) built-ins
    stream_builtin(ctx)

    # ---- (c) action
    per = 15 if quick else 200
    arecs = [r for chunk in ctx.pmap(mod, "action_chunk", [(ctx.seed, k, per) for k in range(16)]) for r in chunk]
    for i, r in enumerate(arecs):
        r["lean"]["id"] = i
    lean = ctx.model([r["lean"] for r in arecs])
    for i, r in enumerate(arecs):
        ctx.evaluations += 1
        case = jsonable_case(r["case"])
        for k, v in r["stats"].items():
            ctx.stat(k, v)
        ctx.stat("c:applications", r["napplied"])
        if "oracle_bug" in r:
            ctx.correspondence_broken("action/oracle", r["oracle_bug"] + f" {case}")
            continue
        if r["nontrivial"]:
            ctx.mark_nontrivial(("c", repr(case)))
        if i % 40 == 0:
            ctx.sample(dict(case=case))
        if r["problems"]:
            ctx.violation("operator array does not act as the operator on Fock space: " + "; ".join(r["problems"][:3]),
                          case, op="tensordot(G, psi)", detail=dict(problems=r["problems"], convention=r["convention_only"]))
        elif r["convention_only"]:
            ctx.correspondence_broken(
                "action/sign-convention",
                "product law, Hermiticity and spectrum hold but the action is not D.H.D: "
                + "; ".join(r["convention_only"][:2]) + f" {case}")
        if lean is not None:
            m = lean[i]
            if "bad" in m:
                ctx.correspondence_broken("action/driver", m["bad"])
            elif [dec_scalar(s) for s in m["fock"]] != [dec_scalar(s) for s in r["fock_h"]]:
                ctx.correspondence_broken("action/fock", f"Lean Fock matrix differs from the Python oracle on {case}")

    # ---- (d), (e)
    stream_complex(ctx)
    stream_scaling(ctx)
    stream_order(ctx)


def replay(ctx, payload):
    """re-run a recorded violation: an `elements` case directly (labels are parsed back from their
    repr), every other stream by re-running the whole check with the recorded seed and tier
    (direct oracles only, the Lean driver is not needed)."""
    import ast

    case = payload.get("case") or {}
    if case.get("stream") == "elements":
        def w(word):
            return [(ast.literal_eval(l), bool(d)) for l, d in word]

        def sc(s):
            re, im = dec_scalar(s)
            return complex(float(re), float(im)) if im else float(re)

        c = dict(ltype=case.get("ltype"), terms=[(sc(c_), w(t)) for c_, t in case["terms"]],
                 bases=[[w(st) for st in b] for b in case["bases"]])
        impl = run_impl_elements(c, random.Random(0))
        orc = "ValueError" if not c["bases"] else canon_entries(oracle_elements(c["terms"], c["bases"]))
        print("implementation:", impl)
        print("oracle        :", orc)
        print("REPRODUCED" if impl != orc else "not reproduced")
        return 1 if impl != orc else 0
    ctx.seed = payload.get("seed", ctx.seed)
    ctx.tier = payload.get("tier", ctx.tier)
    ctx.rng = random.Random(ctx.seed)
    run(ctx)
    for v in ctx.violations[:5]:
        print("REPRODUCED:", v["what"])
    for k in ctx.known_hits.values():
        print("KNOWN-FINDING:", k["what"])
    if not ctx.violations:
        print("not reproduced")
    return 1 if ctx.violations else 0
