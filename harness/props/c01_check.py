"""C01, stream "libcheck" — symmray's own debug-mode audit against its Lean model.

The real routines (BlockIndex.check / matches, SubIndexInfo.matches, dicts_dont_conflict,
AbelianArray.check / check_chargemaps_aligned / check_with, BlockVector.check; FermionicArray has
no check of its own) are run on raw states obtained from valid generated objects by corrupting
ONE attribute, and diffed with `SymmModel.Check.*` (Model/Check.lean, driver kind "libcheck"):
accept / reject and the class of the exception.

Verdict rules: the property this stream owns is the theorem `validB_implies_check_ok` — a valid
array is never rejected by a debug-mode run.  A disagreement on an UNCORRUPTED object that the
independent oracle `oracle.py_valid` calls valid and that the real audit rejects is a violation;
every other disagreement is a broken correspondence (the model is no longer of the code).

Call `run_c01_check(ctx)` from `harness.props.c01.run`.
"""

import json
import math
import random

import numpy as np

from .. import gen, oracle, ser

STREAM = "libcheck:model-vs-implementation"
RULE_CHECK = ("valid arrays / indices / vectors from harness.gen (all symmetries, abelian and fermionic, plain and "
              "fused indices, pending signs) with one attribute corrupted (block shape or rank, sector charge / key / "
              "length, unsorted / zero / negative chargemap, total charge, sub-index extents, sub-indices, sign table, "
              "labels, non-finite data; non-matching, dropped-charge, fused-vs-plain index pairs; vectors with missing "
              "or wrong-size blocks; out-of-range axes); real audit vs Lean model: accept/reject and exception class. "
              "non-trivial: a corruption was applied")
ASSUMPTIONS_CHECK = [
    "libcheck: sizes are Python ints (the audit's isinstance(d, int) clause is not modelled); Z2Z2 charges stay "
    "in {0,1}^2 (the model writes xor as addition mod 2)",
]

ERRS = {ValueError: "value", AssertionError: "assertion", KeyError: "key", IndexError: "index",
        AttributeError: "attr"}


def call(fn, *a):
    """outcome of a real audit call: ('ok', value) or (exception class name, None)"""
    try:
        r = fn(*a)
    except Exception as e:  # noqa
        return ERRS.get(type(e), "other:" + type(e).__name__), None
    return "ok", r


# ------------------------------------------------------------------ raw serialisation


def raw_block(b):
    b = np.asarray(b)
    return {"shape": [int(d) for d in b.shape], "finite": bool(np.all(np.isfinite(b)))}


def raw_arr(x):
    return {
        "sym": ser.sym_name(x.symmetry),
        "indices": [ser.enc_index(ix) for ix in x.indices],
        "charge": ser.enc_charge(x.charge),
        "blocks": [dict(sector=ser.enc_sector(s), **raw_block(b)) for s, b in x.blocks.items()],
    }


def raw_vec(v):
    return {"vblocks": [dict(charge=ser.enc_charge(c), **raw_block(b)) for c, b in v.blocks.items()]}


# ------------------------------------------------------------------ corruption helpers


def raw_index_obj(ix, chargemap=None, dual=None, subinfo="keep"):
    """a BlockIndex with attributes set directly (the constructor would sort the table)"""
    new = ix.__new__(ix.__class__)
    new._chargemap = dict(ix._chargemap if chargemap is None else chargemap)
    new._dual = ix._dual if dual is None else dual
    new._subinfo = ix._subinfo if subinfo == "keep" else subinfo
    new._hashkey = None
    return new


def raw_copy(x, indices=None, blocks=None, charge=None):
    new = x.copy()
    if indices is not None:
        new._indices = tuple(indices)
    if blocks is not None:
        new._blocks = blocks
    if charge is not None:
        new._charge = charge
    return new


def other_charge(rng, sym, avoid):
    pool = [c for c in gen.charge_pool(sym) if c not in avoid]
    return rng.choice(pool) if pool else None


def base_array(rng):
    """a valid array, possibly with fused (and twice fused) indices and pending signs"""
    sym = rng.choice(gen.SYMS)
    fermi = rng.random() < 0.5
    x = gen.rand_array(rng, sym, ndim=rng.randint(1, 4), fermi=fermi, static=rng.random() < 0.7,
                       dtype=rng.choice(["float64", "complex128"]), keep=rng.choice([0.4, 0.7, 1.0]),
                       pending=fermi and rng.random() < 0.5)
    fused = 0
    if x.ndim >= 2 and x.blocks and rng.random() < 0.5:
        k = rng.randint(2, x.ndim)
        axes = rng.sample(range(x.ndim), k)
        x = x.fuse(tuple(axes))
        fused = 1
        if x.ndim >= 2 and rng.random() < 0.3:
            x = x.fuse((0, 1))
            fused = 2
    return sym, fermi, fused, x


def with_index(x, i, ix):
    inds = list(x.indices)
    inds[i] = ix
    return raw_copy(x, indices=inds)


def corrupt_array(rng, sym, x):
    """(name, corrupted copy) — exactly one attribute changed; `None` when not applicable"""
    import symmray as sr
    from symmray.abelian_core import SubIndexInfo

    kinds = ["none", "block_shape", "block_rank_less", "block_rank_more", "sector_charge", "sector_key",
             "sector_short", "sector_long", "unsorted", "zero_size", "neg_size", "total_charge", "nonfinite",
             "ext_sum", "ext_partition", "ext_key", "sub_index_size", "stale_phase", "phase_value", "oddpos",
             "index_dual", "cm_extra_charge", "cm_drop_charge"]
    kind = rng.choice(kinds)
    secs = list(x.blocks)
    fused_axes = [i for i, ix in enumerate(x.indices) if ix.subinfo is not None]
    if kind == "none":
        return kind, x.copy()
    if kind in ("block_shape", "block_rank_less", "block_rank_more", "nonfinite") and secs:
        s = rng.choice(secs)
        b = np.asarray(x.blocks[s])
        blocks = dict(x.blocks)
        if kind == "block_shape" and b.ndim:
            ax = rng.randrange(b.ndim)
            shp = list(b.shape)
            shp[ax] += rng.choice([1, 2]) if shp[ax] == 1 or rng.random() < 0.5 else -1
            blocks[s] = np.ones(shp, dtype=b.dtype)
        elif kind == "block_rank_less" and b.ndim:
            blocks[s] = np.ones(b.shape[:-1], dtype=b.dtype)
        elif kind == "block_rank_more":
            blocks[s] = np.ones(b.shape + (rng.choice([1, 2]),), dtype=b.dtype)
        elif kind == "nonfinite" and b.size:
            b = np.array(b, dtype=b.dtype, copy=True)
            b.reshape(-1)[rng.randrange(b.size)] = rng.choice([np.nan, np.inf, -np.inf])
            blocks[s] = b
        else:
            return None
        return kind, raw_copy(x, blocks=blocks)
    if kind in ("sector_charge", "sector_key", "sector_short", "sector_long") and secs and x.ndim:
        s = rng.choice(secs)
        ax = rng.randrange(x.ndim)
        if kind == "sector_charge":
            alt = [c for c in x.indices[ax].chargemap if c != s[ax]]
            if not alt:
                return None
            s2 = s[:ax] + (rng.choice(alt),) + s[ax + 1:]
        elif kind == "sector_key":
            c = other_charge(rng, sym, set(x.indices[ax].chargemap))
            if c is None:
                return None
            s2 = s[:ax] + (c,) + s[ax + 1:]
        elif kind == "sector_short":
            s2 = s[:-1]
        else:
            s2 = s + (rng.choice(gen.charge_pool(sym)),)
        if s2 in x.blocks:
            return None
        blocks = {(s2 if k == s else k): v for k, v in x.blocks.items()}
        return kind, raw_copy(x, blocks=blocks)
    if kind in ("unsorted", "zero_size", "neg_size", "index_dual", "cm_extra_charge", "cm_drop_charge") and x.ndim:
        i = rng.randrange(x.ndim)
        ix = x.indices[i]
        cm = dict(ix.chargemap)
        if kind == "unsorted":
            if len(cm) < 2:
                return None
            items = list(cm.items())
            j = rng.randrange(len(items) - 1)
            items[j], items[j + 1] = items[j + 1], items[j]
            return kind, with_index(x, i, raw_index_obj(ix, chargemap=dict(items)))
        if kind == "index_dual":
            return kind, with_index(x, i, raw_index_obj(ix, dual=not ix.dual))
        if kind == "cm_extra_charge":
            c = other_charge(rng, sym, set(cm))
            if c is None:
                return None
            cm[c] = rng.randint(1, 2)
            return kind, with_index(x, i, raw_index_obj(ix, chargemap=dict(sorted(cm.items()))))
        if kind == "cm_drop_charge":
            del cm[rng.choice(list(cm))]
            return kind, with_index(x, i, raw_index_obj(ix, chargemap=cm))
        c = rng.choice(list(cm))
        cm[c] = 0 if kind == "zero_size" else -rng.randint(1, 2)
        return kind, with_index(x, i, raw_index_obj(ix, chargemap=cm))
    if kind == "total_charge":
        c = other_charge(rng, sym, {x.charge})
        if c is None:
            return None
        return kind, raw_copy(x, charge=c)
    if kind in ("ext_sum", "ext_partition", "ext_key", "sub_index_size") and fused_axes:
        i = rng.choice(fused_axes)
        ix = x.indices[i]
        ext = {c: dict(e) for c, e in ix.subinfo.extents.items()}
        subs = ix.subinfo.indices
        if kind == "ext_sum":
            c = rng.choice(list(ext))
            if not ext[c]:
                return None
            ss = rng.choice(list(ext[c]))
            ext[c][ss] += rng.choice([1, -1])
        elif kind == "ext_partition":
            # same grand total, wrong partition: move one unit between two sub-sectors (possibly of
            # different fused charges)
            cells = [(c, ss) for c, e in ext.items() for ss in e]
            if len(cells) < 2:
                return None
            (c1, s1), (c2, s2) = rng.sample(cells, 2)
            ext[c1][s1] += 1
            ext[c2][s2] -= 1
        elif kind == "ext_key":
            c = rng.choice(list(ext))
            c2 = other_charge(rng, sym, set(ext))
            if c2 is None:
                return None
            ext = {(c2 if k == c else k): v for k, v in ext.items()}
        else:
            j = rng.randrange(len(subs))
            scm = dict(subs[j].chargemap)
            scm[rng.choice(list(scm))] = rng.choice([0, -1, 7])
            subs = tuple(raw_index_obj(s, chargemap=scm) if k == j else s for k, s in enumerate(subs))
        return kind, with_index(x, i, raw_index_obj(ix, subinfo=SubIndexInfo(subs, ext)))
    if kind in ("stale_phase", "phase_value", "oddpos") and getattr(x, "fermionic", False):
        new = x.copy()
        if kind == "stale_phase":
            s = tuple(rng.choice(gen.charge_pool(sym)) for _ in range(x.ndim + rng.choice([0, 0, 1])))
            new._phases = dict(x.phases)
            new._phases[s] = -1
        elif kind == "phase_value":
            if not secs:
                return None
            new._phases = dict(x.phases)
            new._phases[rng.choice(secs)] = rng.choice([0, 2, -3])
        else:
            new._oddpos = tuple(x.oddpos) + (sr.FermionicOperator(rng.randint(60, 90)),)
        return kind, new
    return None


# ------------------------------------------------------------------ case generators


def case_check(rng):
    sym, fermi, fused, x = base_array(rng)
    for _ in range(8):
        r = corrupt_array(rng, sym, x)
        if r is not None:
            break
    else:
        r = ("none", x.copy())
    kind, y = r
    fn = "aligned" if rng.random() < 0.2 else "check"
    if fn == "aligned" and kind == "none" and rng.random() < 0.5:
        y = y.sync_charges()
        kind = "none_synced"
    got, _ = call(y.check if fn == "check" else y.check_chargemaps_aligned)
    pyv = oracle.py_valid(y) if kind.startswith("none") else "corrupted"
    return dict(req={"kind": "libcheck", "fn": fn, "arr": raw_arr(y)}, impl=got, fn=fn, corrupt=kind,
                meta=dict(sym=sym, fermi=fermi, fused=fused), valid_by_oracle=pyv is None, pyv=pyv)


def case_index(rng):
    """BlockIndex.check alone, on plain and fused indices"""
    sym, fermi, fused, x = base_array(rng)
    if not x.ndim:
        return None
    for _ in range(8):
        r = corrupt_array(rng, sym, x)
        if r is not None:
            break
    else:
        r = ("none", x.copy())
    kind, y = r
    ix = rng.choice(y.indices)
    got, _ = call(ix.check)
    return dict(req={"kind": "libcheck", "fn": "index_check", "index": ser.enc_index(ix)}, impl=got,
                fn="index_check", corrupt=kind, meta=dict(sym=sym, fermi=fermi, fused=fused),
                valid_by_oracle=False, pyv="n/a")


def mismatch_index(rng, sym, ix):
    """an index derived from `ix` that may or may not match it"""
    from symmray.abelian_core import SubIndexInfo

    kind = rng.choice(["conj", "same", "size", "drop", "extra", "plain", "sub_dual", "ext_conflict", "sub_short"])
    if kind == "conj":
        return kind, ix.conj()
    if kind == "same":
        return kind, ix
    cj = ix.conj()
    cm = dict(cj.chargemap)
    if kind == "size":
        c = rng.choice(list(cm))
        cm[c] += 1
        return kind, raw_index_obj(cj, chargemap=cm)
    if kind == "drop":
        if len(cm) < 2:
            return None
        return kind, cj.drop_charges([rng.choice(list(cm))])
    if kind == "extra":
        c = other_charge(rng, sym, set(cm))
        if c is None:
            return None
        cm[c] = rng.randint(1, 3)
        return kind, raw_index_obj(cj, chargemap=dict(sorted(cm.items())))
    if kind == "plain":
        if cj.subinfo is None:
            return None
        return kind, raw_index_obj(cj, subinfo=None)
    if cj.subinfo is None:
        return None
    subs = cj.subinfo.indices
    ext = {c: dict(e) for c, e in cj.subinfo.extents.items()}
    if kind == "sub_dual":
        j = rng.randrange(len(subs))
        subs = tuple(s.conj() if k == j else s for k, s in enumerate(subs))
    elif kind == "ext_conflict":
        c = rng.choice(list(ext))
        if not ext[c]:
            return None
        if rng.random() < 0.5:
            # same dict in another order: still equal for Python
            ext[c] = dict(reversed(list(ext[c].items())))
            kind = "ext_reordered"
        else:
            ss = rng.choice(list(ext[c]))
            ext[c][ss] += 1
    else:
        subs = subs[:-1]
    return kind, raw_index_obj(cj, subinfo=SubIndexInfo(subs, ext))


def case_matches(rng):
    sym, fermi, fused, x = base_array(rng)
    if not x.ndim:
        return None
    ix = rng.choice(x.indices)
    r = mismatch_index(rng, sym, ix)
    if r is None:
        return None
    kind, other = r
    a, b = (ix, other) if rng.random() < 0.5 else (other, ix)
    got, val = call(a.matches, b)
    if got == "ok":
        got = "true" if val else "false"
    return dict(req={"kind": "libcheck", "fn": "matches", "a": ser.enc_index(a), "b": ser.enc_index(b)},
                impl=got, fn="matches", corrupt=kind, meta=dict(sym=sym, fermi=fermi, fused=fused),
                valid_by_oracle=False, pyv="n/a")


def case_check_with(rng):
    sym = rng.choice(gen.SYMS)
    fermi = rng.random() < 0.5
    a, b, xa, xb = gen.rand_contractible(rng, sym, fermi=fermi, static=rng.random() < 0.7, max_ndim=3,
                                         ncon=rng.choice([1, 1, 2]))
    fused = 0
    if len(xa) == 2 and rng.random() < 0.6:
        # contract over a fused pair of legs (sub-index information on both sides)
        a = a.fuse(tuple(xa))
        b = b.fuse(tuple(xb))
        xa, xb = [min(xa)], [min(xb)]
        fused = 1
    kind = rng.choice(["none", "none", "index", "symmetry", "axes_range", "axes_len", "neg_axes"])
    xa, xb = list(xa), list(xb)
    if kind == "index" and xb:
        k = rng.randrange(len(xb))
        r = mismatch_index(rng, sym, a.indices[xa[k]])
        if r is None:
            return None
        kind = "index:" + r[0]
        b = with_index(b, xb[k], r[1])
    elif kind == "symmetry":
        sym2 = rng.choice([s for s in gen.SYMS if s != sym])
        b = gen.rand_array(rng, sym2, ndim=b.ndim, fermi=fermi, static=False)
    elif kind == "axes_range" and xa:
        k = rng.randrange(len(xa))
        if rng.random() < 0.5:
            xa[k] = a.ndim + rng.randint(0, 1)
        else:
            xb[k] = -b.ndim - 1
    elif kind == "axes_len":
        xa = xa + [0]
    elif kind == "neg_axes":
        xa = [v - a.ndim for v in xa]
        xb = [v - b.ndim if rng.random() < 0.5 else v for v in xb]
    got, _ = call(a.check_with, b, tuple(xa), tuple(xb))
    return dict(req={"kind": "libcheck", "fn": "check_with", "arr": raw_arr(a), "other": raw_arr(b),
                     "axes_a": [int(v) for v in xa], "axes_b": [int(v) for v in xb]},
                impl=got, fn="check_with", corrupt=kind, meta=dict(sym=sym, fermi=fermi, fused=fused),
                valid_by_oracle=False, pyv="n/a")


def case_vec(rng):
    import symmray as sr

    sym, fermi, fused, x = base_array(rng)
    if not x.ndim:
        return None
    ax = rng.randrange(x.ndim)
    v = gen.rand_vec(rng, x.indices[ax], keep=1.0)
    kind = rng.choice(["none", "none", "missing", "size", "ax_range", "neg_ax", "rank2", "empty", "mixed_rank",
                       "block_rank_less"])
    blocks = dict(v.blocks)
    axq = ax
    if kind == "missing" and blocks:
        del blocks[rng.choice(list(blocks))]
    elif kind == "size" and blocks:
        c = rng.choice(list(blocks))
        blocks[c] = np.ones(len(blocks[c]) + 1)
    elif kind == "ax_range":
        axq = x.ndim + rng.randint(0, 1) if rng.random() < 0.5 else -x.ndim - 1
    elif kind == "neg_ax":
        axq = ax - x.ndim
    elif kind == "rank2":
        blocks = {c: np.ones((len(b_), 1)) for c, b_ in blocks.items()}
    elif kind == "empty":
        blocks = {}
    elif kind == "mixed_rank" and len(blocks) >= 2:
        c = rng.choice(list(blocks))
        blocks[c] = np.ones((len(blocks[c]), 1))
    elif kind == "block_rank_less" and x.blocks:
        s = rng.choice(list(x.blocks))
        bl = dict(x.blocks)
        bl[s] = np.ones(np.shape(bl[s])[:-1])
        x = raw_copy(x, blocks=bl)
    v2 = sr.BlockVector(blocks)
    if rng.random() < 0.35:
        got, _ = call(v2.check)
        return dict(req={"kind": "libcheck", "fn": "vec_check", "vec": raw_vec(v2)}, impl=got, fn="vec_check",
                    corrupt=kind, meta=dict(sym=sym, fermi=fermi, fused=fused), valid_by_oracle=False, pyv="n/a")
    got, _ = call(x.check_with, v2, axq)
    return dict(req={"kind": "libcheck", "fn": "check_with_vec", "arr": raw_arr(x), "vec": raw_vec(v2),
                     "ax": int(axq)}, impl=got, fn="check_with_vec", corrupt=kind,
                meta=dict(sym=sym, fermi=fermi, fused=fused), valid_by_oracle=False, pyv="n/a")


GENS = [(case_check, 0.5), (case_index, 0.1), (case_matches, 0.15), (case_check_with, 0.13), (case_vec, 0.12)]


def gen_cases(seed, chunk, n):
    rng = random.Random(seed * 1000003 + chunk * 7907 + 4242)
    out = []
    while len(out) < n:
        u = rng.random()
        acc = 0.0
        for g, w in GENS:
            acc += w
            if u < acc:
                break
        c = g(rng)
        if c is not None:
            out.append(c)
    return out


# ------------------------------------------------------------------ the stream


def run_c01_check(ctx):
    n = 4000 if ctx.tier == "quick" else 40000
    per = 100
    chunks = ctx.pmap("harness.props.c01_check", "gen_cases",
                      [(ctx.seed, k, per) for k in range(max(1, n // per))])
    items = [it for ch in chunks for it in ch]
    ctx.evaluations += len(items)
    for i, it in enumerate(items):
        it["req"]["id"] = i
    model = ctx.model([it["req"] for it in items])
    for it in items:
        ctx.stat(f"libcheck.{it['fn']}.{it['corrupt']}={it['impl']}")
        if not it["corrupt"].startswith("none"):
            ctx.mark_nontrivial("libcheck:" + json.dumps(it["req"], sort_keys=True)[:4000])
        ctx.sample({"libcheck": it["fn"], "corrupt": it["corrupt"], "impl": it["impl"], "meta": it["meta"]}, limit=6)
        # direct oracle of `validB_implies_check_ok`: an (uncorrupted) valid array passes the audit
        rejected_valid = it["fn"] == "check" and it["valid_by_oracle"] and it["impl"] != "ok"
        if model is None:
            if rejected_valid:
                ctx.violation("the library's own audit rejects a valid array", dict(it["req"], impl=it["impl"]),
                              op="check")
            continue
        m = model[it["req"]["id"]]
        if "bad" in m:
            ctx.correspondence_broken("libcheck:driver-bad", str(m["bad"])[:2000])
            continue
        if m.get("r") == it["impl"]:
            continue
        ctx.disagreements_checked += 1
        if rejected_valid:
            ctx.violation("the library's own audit rejects a valid array",
                          dict(it["req"], impl=it["impl"], model=m.get("r")), op="check")
        else:
            ctx.correspondence_broken(
                STREAM, json.dumps(dict(fn=it["fn"], corrupt=it["corrupt"], impl=it["impl"], model=m.get("r"),
                                        python_validity=it["pyv"], meta=it["meta"], request=it["req"]),
                                   default=str)[:6000])


# ------------------------------------------------------------------ replay of a recorded case


def index_from_raw(j, sym):
    """rebuild a (possibly corrupted) BlockIndex from its raw form, attributes set directly"""
    import symmray as sr
    from symmray.abelian_core import SubIndexInfo

    sub = None
    if j.get("sub") is not None:
        sub = SubIndexInfo(
            tuple(index_from_raw(s, sym) for s in j["sub"]["indices"]),
            {ser.dec_charge(c, sym): {ser.dec_sector(ss, sym): d for ss, d in ext}
             for c, ext in j["sub"]["extents"]})
    ix = sr.BlockIndex({}, dual=j["dual"], subinfo=sub)
    ix._chargemap = {ser.dec_charge(c, sym): d for c, d in j["cm"]}
    return ix


def array_from_raw(j):
    import symmray as sr

    sym = j["sym"]
    blocks = {}
    for b in j["blocks"]:
        a = np.ones(b["shape"])
        if not b["finite"] and a.size:
            a.reshape(-1)[0] = np.nan
        blocks[ser.dec_sector(b["sector"], sym)] = a
    x = sr.AbelianArray.__new__(sr.AbelianArray)
    x._indices = tuple(index_from_raw(i, sym) for i in j["indices"])
    x._charge = ser.dec_charge(j["charge"], sym)
    x._blocks = blocks
    x._symmetry = sr.get_symmetry(sym)
    return x


def impl_of_request(req):
    """run the real audit routine named by a protocol request (None: not rebuildable here)"""
    fn = req["fn"]
    if fn in ("check", "aligned"):
        x = array_from_raw(req["arr"])
        return call(x.check if fn == "check" else x.check_chargemaps_aligned)[0]
    if fn == "index_check":
        sym = "U1U1"  # charges are kept as pairs: BlockIndex.check does not use the symmetry
        return call(index_from_raw(req["index"], sym).check)[0]
    if fn == "check_with":
        a, b = array_from_raw(req["arr"]), array_from_raw(req["other"])
        return call(a.check_with, b, tuple(req["axes_a"]), tuple(req["axes_b"]))[0]
    return None


def replay_c01_check(ctx, payload):
    """replay of a violation / broken-correspondence case recorded by this stream"""
    case = payload.get("case", {})
    req = {k: v for k, v in case.items() if k not in ("impl", "model")}
    now = impl_of_request(req)
    ctx.lean.build()
    ctx.driver_ok = bool(ctx.lean.build_ok)
    m = ctx.model([dict(req, id=0)])
    mod = m[0].get("r") if m else None
    print("what:", payload.get("what"))
    print(f"libcheck {req.get('fn')}: implementation now {now!r}, recorded {case.get('impl')!r}, model {mod!r}")
    bad = now is not None and (now != "ok" if payload.get("kind") == "violation" else (mod is not None and now != mod))
    print("verdict:", "violation reproduces" if bad else "not reproduced on this tree")
    return 1 if bad else 0
