"""C01 — Every result is a valid symmetric array (charge conservation is closed)."""

import json
import random

import numpy as np

from .. import gen, impl, oracle, progs, ser, stream
from . import c01_check

ID = "C01"
LEVEL = "proof"
PROPS_MODULE = "SymmModel.Props.C01All"
THEOREMS = [
    "SymmModel.C01.transposeA_valid",
    "SymmModel.C01.transposeF_valid",
    "SymmModel.C01.conjA_valid",
    "SymmModel.C01.conjF_valid",
    "SymmModel.C01.daggerF_valid",
    "SymmModel.C01.sectorCharge_conj",
    "SymmModel.C01.conj_wfB",
    "SymmModel.C01.phaseFlip_valid",
    "SymmModel.C01.phaseTranspose_valid",
    "SymmModel.C01.phaseSector_valid",
    "SymmModel.C01.phaseGlobal_valid",
    "SymmModel.C01.phaseSync_valid",
    "SymmModel.C01.expandDims_none_valid",
    "SymmModel.C01.expandDims_some_valid",
    "SymmModel.C01.expandDims_odd_charge_invalid",
    "SymmModel.C01.squeeze_valid",
    "SymmModel.C01.squeeze_valid_any_phases",
    "SymmModel.C01.squeeze_phase_keys_stored",
    "SymmModel.C01.squeeze_drops_stale_phase_keys",
    "SymmModel.C01.tensordotBlockwise_valid",
    "SymmModel.C01.tensordotBlockwise_valid_abelian_part",
    "SymmModel.C01.tensordotA_valid",
    "SymmModel.C01.tensordotF_valid",
    "SymmModel.C01.matmulA_valid",
    "SymmModel.C01.matmulF_valid",
    "SymmModel.C01.dropMisaligned_valid",
    "SymmModel.C01.syncCharges_valid",
    "SymmModel.C01.multiplyDiagonal_valid",
    "SymmModel.C01.binaryBlockwise_valid",
    "SymmModel.C01.binaryBlockwise_valid_fits",
    "SymmModel.C01.qrA_valid",
    "SymmModel.C01.svdA_valid",
    "SymmModel.C01.eighA_valid",
    "SymmModel.C01.matrix_sector_injective",
    "SymmModel.C01.calcFuseBlockInfo_wf",
    "SymmModel.C01.fuseCore_valid",
    "SymmModel.C01.fuseA_valid",
    "SymmModel.C01.fuseF_valid",
    "SymmModel.C01.unfuseA_valid",
    "SymmModel.C01.unfuseF_valid",
    "SymmModel.C01.unfuseAllA_valid",
    "SymmModel.C01.unfuseAllF_valid",
    "SymmModel.C01.Prog.preserves_valid",
    "SymmModel.C01.Op.preserves_valid",
    "SymmModel.C01.construct_valid",
    "SymmModel.C01.fromBlocks_valid",
    "SymmModel.C01.fromDense_valid",
    "SymmModel.C01.fromFillFn_valid",
    "SymmModel.C01.reshapeArr_valid",
    "SymmModel.C01.reshapeArr_valid_of_certificate",
    "SymmModel.C01.reshapeAdmissible_of_certified",
    "SymmModel.C01.applyPlan_valid",
    "SymmModel.C01.einsumA_valid",
    "SymmModel.C01.einsumF_valid",
    "SymmModel.C01.fuseCore_concat_valid",
    "SymmModel.C01.fuseA_concat_valid",
    "SymmModel.C01.fuseF_concat_valid",
    "SymmModel.C01.solveA_valid",
    "SymmModel.C01.svdTruncated_valid",
    "SymmModel.C01.alignAxes_valid",
    "SymmModel.C01.OpAll.preserves_valid",
    "SymmModel.C01.Prog.preserves_valid_ops",
    "SymmModel.C01.Prog.preserves_valid_all",
    "SymmModel.C01.rindex_check_ok_iff",
    "SymmModel.C01.checkBlock_ok_iff",
    "SymmModel.C01.rarr_check_ok_iff",
    "SymmModel.C01.wfB_iff_check_and_unaudited",
    "SymmModel.C01.validB_iff_check_and_unaudited",
    "SymmModel.C01.validB_implies_check_ok",
    "SymmModel.C01.check_ok_and_unaudited_implies_validB",
    "SymmModel.C01.check_ok_implies_audited",
    "SymmModel.C01.audit_misses_invalid_table_charge",
    "SymmModel.C01.audit_misses_invalid_total_charge",
    "SymmModel.C01.audit_misses_sector_too_long",
    "SymmModel.C01.audit_misses_sector_too_short",
    "SymmModel.C01.audit_misses_block_rank_too_small",
    "SymmModel.C01.audit_misses_block_rank_too_large",
    "SymmModel.C01.audit_misses_sub_index_table",
    "SymmModel.C01.audit_misses_extents_partition",
    "SymmModel.C01.audit_misses_extents_key",
    "SymmModel.C01.audit_misses_extents_subsector",
    "SymmModel.C01.audit_misses_phase_table",
    "SymmModel.C01.audit_misses_label_parity",
    "SymmModel.C01.audit_reads_nothing_fermionic",
    "SymmModel.C01.audit_looks_at_finiteness",
    "SymmModel.C01.valid_not_aligned",
    "SymmModel.C01.vec_check_empty_and_rank2",
    "SymmModel.C01.dictsDontConflict_symm",
    "SymmModel.C01.matchesE_symm_plain",
    "SymmModel.C01.matches_implies_agree",
    "SymmModel.C01.checkWith_implies_contractibleCommon",
    "SymmModel.C01.matches_not_contractibleB",
    "SymmModel.C01.checkWith_ignores_axes_length",
    "SymmModel.C01.matchesE_symm",
    "SymmModel.C01.matchesAll_symm",
    "SymmModel.C01.dictInv_of_wfB",
    "SymmModel.C01.matchesE_symm_wf",
    "SymmModel.C01.dictInv_of_validB",
    "SymmModel.C01.checkWith_symm",
    "SymmModel.C01.checkWith_implies_contractibleCommon_int",
    "SymmModel.C01.checkWith_implies_tdotAdmissibleCommon",
    "SymmModel.C01.checkWith_tensordotF_no_raise",
    "SymmModel.C01.checkWith_tensordotA_no_raise"
]
LEAN_FILES = ["SymmModel.Props.C01", "SymmModel.Proofs.ValidLemmas", "SymmModel.Proofs.ValidOps", "SymmModel.Proofs.ValidTdot", "SymmModel.Proofs.ValidMore", "SymmModel.Proofs.ValidTdotF", "SymmModel.Proofs.ValidLinalg", "SymmModel.Proofs.ValidFuse", "SymmModel.Proofs.ValidFuse2", "SymmModel.Proofs.ValidFuseF", "SymmModel.Proofs.ValidTdotFused", "SymmModel.Proofs.ValidMisc", "SymmModel.Proofs.ValidProg", "SymmModel.Props.C01b", "SymmModel.Props.C01All", "SymmModel.Proofs.ValidMore2Construct", "SymmModel.Proofs.ValidMore2Concat", "SymmModel.Proofs.ValidMore2Einsum", "SymmModel.Proofs.ValidMore2Reshape", "SymmModel.Proofs.ValidMore2Cert", "SymmModel.Proofs.ValidMore2Linalg", "SymmModel.Proofs.ValidMore2Prog", "SymmModel.Props.C01c", "SymmModel.Proofs.CheckLemmas", "SymmModel.Model.Check", "SymmModel.Props.C01d", "SymmModel.Proofs.SmallCheck"]
PLANNED = []
RULE = ("random programs (length <= 6) over every public operation incl. reshape and the decompositions, all "
        "symmetries (Z4 and generic classes included), abelian and fermionic, sparse, pending signs, odd charges; "
        "every array returned along each program is serialised raw (stored blocks, sign table, labels, index and "
        "sub-index tables) and judged by the Lean predicate Arr.validB (the verdict), and the programs are diffed "
        "against the Lean model. non-trivial: >= 2 blocks and >= 1 operation that re-keys sectors"
        '; twin histories (same tables under Z2/U1/Z4) and twice-fused, conjugated, twice-unfused arrays are monitored as well')
ANCHORS = {"abelian_core.py": ["is_valid_sector", "check", "check_chargemaps_aligned", "check_with", "matches", "dicts_dont_conflict", "_tensordot_blockwise", "calc_fuse_block_info",
                               "drop_misaligned_sectors", "expand_dims", "squeeze", "unfuse", "reshape"],
           "fermionic_core.py": ["_map_blocks", "transpose", "resolve_combined_oddpos", "conj", "dagger"],
           "linalg.py": ["qr", "svd", "svd_truncated", "eigh", "solve"],
           "block_core.py": ["_binary_blockwise_op"]}
ASSUMPTIONS = ["float results of LAPACK are serialised structure-only (validity does not depend on values)"] + list(c01_check.ASSUMPTIONS_CHECK if isinstance(c01_check.ASSUMPTIONS_CHECK, (list, tuple)) else [c01_check.ASSUMPTIONS_CHECK])

MODEL_STOPS = {"svd_truncated"}
REKEY = {"transpose", "fuse", "unfuse", "unfuse_all", "tensordot", "einsum", "squeeze", "expand_dims", "dagger",
         "reshape", "matmul", "qr", "svd", "eigh", "solve", "svd_truncated", "align_axes"}


def extra_step(rng, env, fermi, names, k):
    """operations outside progs.pick_step: reshape, decompositions, align_axes, matmul"""
    import symmray as sr

    arrs = [n for n in names if isinstance(env[n], sr.AbelianArray)]
    n = rng.choice(arrs)
    x = env[n]
    out = f"v{k}"
    kind = rng.choice(["matrix", "reshape", "align", "mdiag"])
    if kind == "matrix" and x.ndim >= 2 and x.blocks:
        steps = []
        src = n
        if x.ndim > 2:
            cut = rng.randint(1, x.ndim - 1)
            perm = list(range(x.ndim))
            rng.shuffle(perm)
            steps.append({"out": [f"m{k}"], "op": "fuse", "in": [n],
                          "params": {"groups": [perm[:cut], perm[cut:]]}})
            src = f"m{k}"
        dec = rng.choice(["qr", "qr", "svd", "svd_truncated", "eigh", "solve"])
        if dec == "qr":
            steps.append({"out": [f"q{k}", f"r{k}"], "op": "qr", "in": [src],
                          "params": {"stabilized": rng.random() < 0.5}})
        elif dec == "svd":
            steps.append({"out": [f"u{k}", f"s{k}", f"vh{k}"], "op": "svd", "in": [src], "params": {}})
        elif dec == "svd_truncated":
            absorb = rng.choice([-1, 0, 1, None])
            outs = [f"u{k}", f"vh{k}"] if absorb is not None else [f"u{k}", f"s{k}", f"vh{k}"]
            steps.append({"out": outs, "op": "svd_truncated", "in": [src],
                          "params": {"max_bond": rng.choice([-1, 1, 2, 3]), "absorb": absorb,
                                     "cutoff": rng.choice([-1.0, 0.5, 0.01]), "cutoff_mode": rng.randint(1, 6)}})
        elif dec == "eigh":
            steps.append({"out": [f"w{k}", f"e{k}"], "op": "eigh", "in": [src], "params": {}})
        else:
            steps.append({"out": [f"x{k}"], "op": "solve", "in": [src, src], "params": {}, "_solve": True})
        return steps
    if kind == "reshape" and x.ndim >= 2 and x.blocks:
        shp = list(x.shape)
        i = rng.randrange(x.ndim - 1)
        new = shp[:i] + [shp[i] * shp[i + 1]] + shp[i + 2:]
        if rng.random() < 0.3:
            new.insert(rng.randint(0, len(new)), 1)
        return [{"out": [out], "op": "reshape", "in": [n], "params": {"newshape": new}}]
    if kind == "align":
        st = progs.pick_step(rng, env, fermi, names, k, ops=["tensordot"])
        if st and st["params"]["axes"][0]:
            return [{"out": [f"{out}a", f"{out}b"], "op": "align_axes", "in": st["in"],
                     "params": {"axes": st["params"]["axes"]}}]
    return []


def twin_case(rng):
    """near-identical arrays of different symmetry fused one after the other in one process
    (call history matters to caches; validity must not depend on it)"""
    import symmray as sr
    from .c05 import twin_arrays

    tw = twin_arrays(rng, "float64")
    nd = tw["Z2"].ndim
    groups = progs.rand_groups(rng, nd, max_groups=2)
    if not any(len(g) > 1 for g in groups):
        groups = [list(range(nd))[::-1][:2]]
    order = rng.sample(sorted(tw), len(tw))
    env = {f"x_{sym}": tw[sym] for sym in tw}
    steps = [{"out": [f"f_{sym}"], "op": "fuse", "in": [f"x_{sym}"], "params": {"groups": groups}}
             for sym in order if tw[sym].blocks]
    res, env2 = impl.run_prog(env, steps)
    produced = []
    for st in steps:
        v = env2.get(st["out"][0])
        if isinstance(v, sr.AbelianArray):
            produced.append((st["out"][0], "fuse", ser.enc_array(v, data=False), oracle.py_valid(v), len(v.blocks), []))
    case = {"kind": "prog", "env": {k: ser.enc_val(v) for k, v in env.items()}, "steps": steps}
    return dict(case=case, impl=stream.strip_py(res), oracle=None,
                meta=dict(sym="twins", fermi=False, static=False, nsteps=len(steps), floaty=False),
                nontrivial=True, op="program", triggers=[], produced=produced, floaty=False)


def gen_cases(seed, chunk, n, tier):
    import symmray as sr

    rng = random.Random(seed * 7919 + chunk * 104729 + 1)
    out = [twin_case(rng) for _ in range(max(1, n // 8))]
    from .c05 import conj_history_case, depth2_case
    for _k in range(2 * max(1, n // 8)):
        fermi_ = rng.random() < 0.5
        if _k % 2:
            it, env2_, steps_ = conj_history_case(rng, fermi=fermi_)
        else:
            it, env2_, steps_ = depth2_case(rng, fermi=fermi_, with_conj=True, dagger=rng.random() < 0.3)
        produced = []
        for st in steps_:
            v = env2_.get(st["out"][0])
            if isinstance(v, sr.AbelianArray):
                produced.append((st["out"][0], st["op"], ser.enc_array(v, data=False), oracle.py_valid(v),
                                 len(v.blocks), []))
        it = dict(it, oracle=None, produced=produced, floaty=False, op="program",
                  meta=dict(sym=it["meta"]["sym"], fermi=fermi_, static=it["meta"]["static"], nsteps=len(steps_), floaty=False))
        out.append(it)
    for _ in range(n):
        sym = rng.choice(gen.SYMS)
        fermi = rng.random() < 0.5
        static = rng.random() < 0.7
        dtype = rng.choice(ser.DTYPES)
        a, b, xa, xb = gen.rand_contractible(rng, sym, fermi=fermi, static=static, dtype=dtype,
                                             keep=rng.choice([0.4, 0.7, 1.0]),
                                             pending=fermi and rng.random() < 0.5, max_ndim=4)
        env = {"a": a, "b": b}
        env0 = {k: ser.enc_val(v) for k, v in env.items()}
        names = ["a", "b"]
        steps = []
        results = []
        floaty = False
        for k in range(rng.randint(1, 6)):
            sts = []
            if rng.random() < 0.3:
                sts = extra_step(rng, env, fermi, names, k)
            if not sts:
                st = progs.pick_step(rng, env, fermi, names, k)
                if st is None:
                    break
                sts = [st]
            stop = False
            for st in sts:
                newvals = st.pop("_newvals", {})
                for vn, v in newvals.items():
                    env0[vn] = ser.enc_val(v)
                if st.pop("_solve", False):
                    # right-hand side: a vector-like rank-1 array matching the matrix' first index
                    m = env[st["in"][0]]
                    rhs = gen.rand_array(rng, sym, indices=[m.indices[0]], fermi=fermi, static=static,
                                         dtype=dtype if not floaty else "float64", keep=1.0,
                                         label=rng.randint(41, 60))
                    env[f"rhs{k}"] = rhs
                    env0[f"rhs{k}"] = ser.enc_val(rhs)
                    st["in"] = [st["in"][0], f"rhs{k}"]
                    if any(np.shape(bk)[0] != np.shape(bk)[1] for bk in m.blocks.values()):
                        stop = True
                        break
                res, env = impl.run_prog(env, [st])
                steps.append(st)
                results.append(res[0])
                if "raise" in res[0]:
                    stop = True
                    break
                names.extend(st["out"])
                if st["op"] in impl.FLOAT_OPS:
                    floaty = True
            if stop:
                break
        # every array produced along the program, raw, for the validity monitor
        produced = []
        for st in steps:
            stale_src = env.get(st["in"][0]) if st["in"] else None
            for nm in st["out"]:
                v = env.get(nm)
                if isinstance(v, sr.AbelianArray):
                    trig = []
                    if st["op"] == "solve" and fermi and env[st["in"][0]].parity:
                        trig.append("odd_matrix")
                    if st["op"] == "squeeze" and fermi and any(
                            s_ not in stale_src.blocks for s_ in stale_src.phases):
                        trig.append("stale_phase_key")
                    produced.append((nm, st["op"], ser.enc_array(v, data=False), oracle.py_valid(v),
                                     len(v.blocks), trig))
        meta = dict(sym=sym, fermi=fermi, static=static, nsteps=len(steps), floaty=floaty)
        nontrivial = any(p[4] >= 2 for p in produced) and any(st["op"] in REKEY for st in steps)
        case = {"kind": "prog", "env": env0, "steps": steps}
        out.append(dict(case=case, impl=stream.strip_py(results), oracle=None, meta=meta,
                        nontrivial=bool(nontrivial), op="program", triggers=[],
                        produced=produced, floaty=floaty))
    return out


def special_cases():
    """documented corner calls (known findings live here)"""
    import symmray as sr

    out = []
    ix = sr.BlockIndex({0: 1, 1: 2})
    x = sr.Z2FermionicArray.random((ix, ix.conj()), seed=1)
    try:
        y = x.expand_dims(0, c=1)
        out.append(("expand_dims", {"odd_extra_charge"}, y, "expand_dims(axis, c=odd) on an even fermionic array"))
    except Exception:  # noqa
        pass
    a = sr.Z2FermionicArray.random((ix, ix.conj()), charge=1, oddpos=3, seed=2)
    # make blocks square so that solve is defined
    a = sr.Z2FermionicArray(indices=(sr.BlockIndex({0: 2, 1: 2}), sr.BlockIndex({0: 2, 1: 2}, dual=True)),
                            charge=1, oddpos=3,
                            blocks={(0, 1): np.array([[2., 1.], [1., 3.]]), (1, 0): np.array([[1., 2.], [0., 1.]])})
    b = sr.Z2FermionicArray(indices=(sr.BlockIndex({0: 2, 1: 2}),), charge=0,
                            blocks={(0,): np.array([1., 2.])})
    try:
        xx = sr.linalg.solve(a, b)
        out.append(("solve", {"odd_matrix"}, xx, "solve(a, b) with an odd-parity matrix a"))
    except Exception:  # noqa
        pass
    # a pending sign on a block that multiply_diagonal drops, then sync_charges and squeeze:
    # the sign table ends up naming a sector that does not conserve the charge
    A = sr.BlockIndex({0: 1, 1: 1})
    B = sr.BlockIndex({0: 1, 1: 1}, dual=True)
    C = sr.BlockIndex({0: 1, -1: 1})
    xs = sr.U1FermionicArray(indices=(A, B, C), charge=0,
                             blocks={(0, 0, 0): np.array([[[1.]]]), (1, 0, -1): np.array([[[2.]]]),
                                     (1, 1, 0): np.array([[[3.]]])})
    try:
        w = xs.phase_sector((1, 1, 0)).multiply_diagonal(sr.BlockVector({0: np.array([2.])}), 1) \
              .sync_charges().squeeze(1)
        out.append(("squeeze", {"stale_phase_key"}, w,
                    "squeeze after multiply_diagonal dropped a block that carried a pending sign"))
    except Exception:  # noqa
        pass
    return out


def run(ctx):
    n = 4000 if ctx.tier == "quick" else 40000
    nchunks = max(1, n // 40)
    chunks = ctx.pmap("harness.props.c01", "gen_cases", [(ctx.seed, k, 40, ctx.tier) for k in range(nchunks)])
    items = [it for ch in chunks for it in ch]
    ctx.evaluations += len(items)
    # (a) program-level diff against the model (value view for exact programs, structure view otherwise)
    cases = []
    for i, it in enumerate(items):
        it["case"]["id"] = i
        # svd_truncated is modelled by the C13 machinery: the model run stops before it
        cut = len(it["case"]["steps"])
        for k, st in enumerate(it["case"]["steps"]):
            if st["op"] in MODEL_STOPS:
                cut = k
                break
        it["cut"] = cut
        cases.append(dict(it["case"], steps=it["case"]["steps"][:cut]))
    model = ctx.model(cases)
    for it in items:
        for k, v in it["meta"].items():
            ctx.stat(f"prog.{k}={v}")
        if it["nontrivial"]:
            ctx.mark_nontrivial(json.dumps(it["case"]["steps"], sort_keys=True) + str(it["case"]["id"]))
        ctx.sample({"steps": it["case"]["steps"], "meta": it["meta"]}, limit=3)
        if model is None:
            continue
        m = model[it["case"]["id"]]
        if "bad" in m:
            ctx.correspondence_broken("programs:driver-bad", m["bad"])
            continue
        upto = it["cut"]
        for k, r in enumerate(it["impl"][:upto]):
            if "raise" in r and str(r.get("msg", "")).startswith("LinAlgError"):
                upto = k  # numerical failure of a LAPACK kernel (e.g. singular block): not modelled
                break
        # value view for every step whose data are exact; structure view (without the lazily kept sign
        # table, which is representation, not structure) for results derived from LAPACK outputs
        tainted_f, kws = set(), []
        for st in it["case"]["steps"][:upto]:
            fl = st["op"] in impl.FLOAT_OPS or any(x in tainted_f for x in st["in"])
            if fl:
                tainted_f.update(st["out"])
            kws.append(dict(structure=True, phases=False) if fl else dict(drop_zero=True))
        ci = [stream.canon_results([r], **kw)[0] for r, kw in zip(it["impl"][:upto], kws)]
        cm = [stream.canon_results([r], **kw)[0] for r, kw in zip(m["results"][:upto], kws)]
        k = stream.first_diff(ci, cm)
        if k is not None:
            ctx.disagreements_checked += 1
            # the direct oracle for C01 is validity itself; a diff here is a broken correspondence
            ctx.correspondence_broken(
                "programs:model-vs-implementation",
                json.dumps(dict(case=it["case"], step=k, impl=stream._short(ci[k] if k < len(ci) else None),
                                model=stream._short(cm[k] if k < len(cm) else None), meta=it["meta"]),
                           default=str)[:6000])
    # (b) the validity monitor: Lean's validB on the implementation's raw results
    mon = []
    for it in items:
        for nm, op, enc, pyv, nb, trig in it["produced"]:
            mon.append((it, nm, op, enc, pyv, set(trig)))
    specials = special_cases()
    for op, trig, arr, what in specials:
        mon.append((None, what, op, ser.enc_array(arr, data=False), oracle.py_valid(arr), trig))
    reqs = [{"id": i, "kind": "valid", "arr": t[3]} for i, t in enumerate(mon)]
    verdicts = ctx.model(reqs)
    ctx.monitors += len(reqs) if verdicts is not None else 0
    tainted = {}  # program id -> names of arrays that are invalid or derived from invalid ones
    for i, t in enumerate(mon):
        it, nm, op, enc, pyv = t[:5]
        trig = t[5] if len(t) > 5 else set()
        if it is not None:
            # the property speaks about operations applied to *valid* arrays: results computed
            # from an already invalid operand are not judged (the producer of that operand is)
            bad = tainted.setdefault(it["case"]["id"], set())
            src = [st for st in it["case"]["steps"] if nm in st["out"]]
            if src and any(x in bad for x in src[0]["in"]):
                bad.add(nm)
                continue
        if verdicts is not None:
            v = verdicts[i]
            if "bad" in v:
                ctx.correspondence_broken("monitor:driver-bad", v["bad"])
                continue
            lean_ok = v["ok"]
            reason = v.get("reason")
        else:
            lean_ok = pyv is None
            reason = pyv
        if lean_ok and pyv is None:
            continue
        if it is not None:
            tainted[it["case"]["id"]].add(nm)
        if (not lean_ok) and pyv is not None:
            case = dict(produced_by=op, name=nm, array=enc, reason=reason, python_reason=pyv,
                        program=(it["case"] if it else None))
            ctx.violation(f"{op} returned an invalid array ({reason})", case, triggers=trig, op=op)
        else:
            ctx.correspondence_broken(
                "monitor:validB-vs-python-validity",
                json.dumps(dict(lean_ok=lean_ok, lean_reason=reason, python=pyv, op=op, array=enc))[:4000])
    # (c) the library's own debug-mode audit (check / check_with / matches ...) against its literal Lean model
    c01_check.run_c01_check(ctx)


def replay(ctx, payload):
    if payload.get("case", {}).get("kind") == "libcheck":
        return c01_check.replay_c01_check(ctx, payload)
    return stream.replay(ctx, payload, canon_kw=dict(drop_zero=True))
