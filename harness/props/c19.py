"""C19 — edge-wise Hamiltonians add up to the lattice Hamiltonian, each term once.

Correspondence + direct oracles for symmray.hamiltonians.ham_*_from_edges and
symmray.networks.parse_edges_to_site_info against the Lean model SymmModel/Model/Ham.lean.

Implementation side (worker processes): the builder is called on the real symmray with
labelled sites; every returned two-site array is turned dense and *projected onto an operator
basis built independently here* (Jordan-Wigner matrices, not symmray's symbolic sorter), which
recovers the coefficient of every elementary operator exactly (all numbers are integers by
construction: coefficients are multiples of 60, degrees ≤ 5).

Direct oracle (no Lean): per site, the recovered on-site coefficients summed over the edges that
touch it equal the specified coefficient; per bond, hopping / interaction / coupling appear once
with the coefficient specified for that bond (dict key in either orientation); the keys of the
returned dict are the edges as given.  For the site description: each bond one index name shared
by exactly its two ends with opposite `duals`, coordination = degree, physical index last.

Model side: the driver's per-edge symbolic term list (and the arguments the builder hands to the
two-site constructor) must reproduce the recovered coefficients; the driver's site description
must equal the real one entry by entry (order of legs included).
"""

import itertools
import random
import sys
from fractions import Fraction

import numpy as np

ID = "C19"
LEVEL = "proof"
PROPS_MODULE = "SymmModel.Props.C19"
_T = "SymmModel.C19."
THEOREMS = [
    _T + n
    for n in (
        "coordination_eq_degree",
        "coordination_pos",
        "onsite_total",
        "ham_sum_eq_lattice",
        "ham_sum_eq_lattice_spinless",
        "ham_sum_eq_lattice_tfim",
        "onsite_total_hubbard",
        "onsite_total_spinless",
        "onsite_total_tfim",
        "edge_coef_either_orientation",
        "hopping_once",
        "hopping_once_spinless",
        "interaction_once",
        "hopping_once_dict",
        "interaction_once_dict",
        "coupling_once",
        "ham_keys",
        "siteinfo_keys",
        "siteinfo_legs",
        "siteinfo_count",
        "siteinfo_spec",
        "nodup_needed",
    )
]
LEAN_FILES = [
    "SymmModel.Model.Ham",
    "SymmModel.Proofs.HamLemmas",
    "SymmModel.Props.C19",
    "SymmModel.Driver.HamH",
]
RULE = (
    "graphs: every simple graph on 2..4 labelled sites (quick: all on <=3 plus a sample on 4; thorough: all 71) "
    "and random simple graphs on 5..6 sites; edges in random order and random orientation; labels ints / "
    "2-tuples / strings, rank-encoded for the model; builders: spinful Hubbard x {Z2,U1,Z2Z2,U1U1}, spinless "
    "x {Z2,U1}, TFIM x Z2 (+ Heisenberg keys); every coefficient independently a scalar, a dict (edge keys in "
    "random orientation, sometimes both), or a callable; values multiples of 60.  A Hamiltonian case is "
    "non-trivial when some site has degree >= 2 and an on-site coefficient is non-zero there; a site-info case "
    "when some site has degree >= 2 and some edge is given with its larger end first."
        '; complex hoppings next to real on-site terms (linearity oracle on the real code)')
ANCHORS = {
    "hamiltonians.py": [
        "make_edge_factory",
        "make_node_factory",
        "tfim_local_array",
        "ham_tfim_from_edges",
        "ham_heisenberg_from_edges",
        "ham_fermi_hubbard_from_edges",
        "ham_fermi_hubbard_spinless_from_edges",
    ],
    "networks.py": ["parse_edges_to_site_info"],
    "fermionic_local_operators.py": [
        "fermi_hubbard_local_array",
        "fermi_hubbard_spinless_local_array",
        "build_local_fermionic_elements",
    ],
}
ASSUMPTIONS = [
    "sites are rank-encoded: the model sees the rank of each label in Python's order of the labels of the case "
    "(ints, 2-tuples of ints, strings; one kind per case)",
    "graphs are simple (no self-loop, no edge twice in either orientation); theorem nodup_needed records that a "
    "repeated edge loses on-site weight (coordination counts it twice, the dict keeps one key)",
    "callable coefficients are symmetric functions of the bond; the KeyError paths of the dict factories are "
    "modelled (`none`) but not exercised",
    "to_dense() lists each index's states grouped by charge in increasing charge order and in the original "
    "order inside a charge (only the spinful Z2 map [0,1,1,0] is affected); the harness accepts either that or "
    "the identity order, whichever reproduces the array exactly",
    "quimb is not installed in the sandbox: for ham_tfim_from_edges / ham_heisenberg_from_edges a stand-in "
    "module providing pauli() (with `&` = Kronecker product) and ham_heis(2) is injected as `quimb` when the "
    "real one cannot be imported",
]
TRUSTED_EXTRA = [
    "the harness's Jordan-Wigner operator basis (16x16 / 4x4 matrices) in symmray's local-operator convention "
    "<i|_a <j|_b  O  |i'>_a |j'>_b, checked on every run to span every returned array exactly",
]
PLANNED = []

MOD = "harness.props.c19"
SPINFUL_SYMS = ["Z2", "U1", "Z2Z2", "U1U1"]
SPINLESS_SYMS = ["Z2", "U1"]

# --------------------------------------------------------------------------------------------
# independent operator bases


def _jw(nm):
    Z = np.diag([1.0, -1.0])
    I = np.eye(2)
    sm = np.array([[0.0, 1.0], [0.0, 0.0]])  # annihilates: |0><1|
    ops = []
    for k in range(nm):
        m = np.array([[1.0]])
        for j in range(nm):
            m = np.kron(m, Z if j < k else (sm if j == k else I))
        ops.append(m)
    return ops


def _dense_ops(nm, bases, terms):
    """<i|_a<j|_b  term  |i'>_a|j'>_b for every term; bases[s][i] = tuple of (mode, dagger?) applied to the
    vacuum (leftmost factor written first)."""
    c = _jw(nm)

    def mat(op):
        m, dag = op
        return c[m].T if dag else c[m]

    vac = np.zeros(2**nm)
    vac[0] = 1.0
    dims = [len(b) for b in bases]
    idxs = list(itertools.product(*[range(d) for d in dims]))
    kets, bras = {}, {}
    for ii in idxs:
        R = np.eye(2**nm)
        L = np.eye(2**nm)
        for s, i in enumerate(ii):
            for op in bases[s][i]:
                R = R @ mat(op)
            for op in reversed(bases[s][i]):
                L = L @ mat((op[0], not op[1]))
        kets[ii] = R @ vac
        bras[ii] = vac @ L
    out = {}
    for name, term in terms.items():
        M = np.eye(2**nm)
        for op in term:
            M = M @ mat(op)
        d = np.zeros(dims + dims)
        for li in idxs:
            bm = bras[li] @ M
            for ri in idxs:
                d[li + ri] = bm @ kets[ri]
        out[name] = d
    return out


_BASIS = {}


def _basis(model):
    if model in _BASIS:
        return _BASIS[model]
    if model == "hubbard":
        au, ad, bu, bd = 0, 1, 2, 3
        ba = [(), ((ad, True),), ((au, True),), ((au, True), (ad, True))]
        bb = [(), ((bd, True),), ((bu, True),), ((bu, True), (bd, True))]
        T = {
            "hopu_ab": [(au, True), (bu, False)],
            "hopu_ba": [(bu, True), (au, False)],
            "hopd_ab": [(ad, True), (bd, False)],
            "hopd_ba": [(bd, True), (ad, False)],
            "dbl_a": [(au, True), (au, False), (ad, True), (ad, False)],
            "dbl_b": [(bu, True), (bu, False), (bd, True), (bd, False)],
            "numu_a": [(au, True), (au, False)],
            "numd_a": [(ad, True), (ad, False)],
            "numu_b": [(bu, True), (bu, False)],
            "numd_b": [(bd, True), (bd, False)],
        }
        D = _dense_ops(4, [ba, bb], T)
    elif model == "spinless":
        a, b = 0, 1
        ba = [(), ((a, True),)]
        bb = [(), ((b, True),)]
        T = {
            "hop_ab": [(a, True), (b, False)],
            "hop_ba": [(b, True), (a, False)],
            "nn_ab": [(a, True), (a, False), (b, True), (b, False)],
            "num_a": [(a, True), (a, False)],
            "num_b": [(b, True), (b, False)],
        }
        D = _dense_ops(2, [ba, bb], T)
    elif model == "tfim":
        X = np.array([[0.0, 1.0], [1.0, 0.0]])
        Z = np.array([[1.0, 0.0], [0.0, -1.0]])
        I = np.eye(2)
        D = {
            "xx_ab": np.kron(X, X).reshape(2, 2, 2, 2),
            "zf_a": np.kron(Z, I).reshape(2, 2, 2, 2),
            "zf_b": np.kron(I, Z).reshape(2, 2, 2, 2),
        }
    else:
        raise ValueError(model)
    names = list(D)
    A = np.stack([D[n].ravel() for n in names], axis=1)
    assert np.linalg.matrix_rank(A) == len(names)
    _BASIS[model] = (names, A, D)
    return _BASIS[model]


def _perm_candidates(model, sym, d):
    n = d.shape[0]
    cands = []
    if model == "hubbard":
        try:
            from symmray.fermionic_local_operators import get_spinful_charge_indexmap

            im = list(get_spinful_charge_indexmap(sym))
            cands.append(sorted(range(n), key=lambda i: (im[i], i)))
        except Exception:  # noqa
            pass
        if sym == "Z2":
            cands.append([0, 3, 1, 2])
    cands.append(list(range(n)))
    out = []
    for p in cands:
        if p not in out:
            out.append(p)
    return out


def project(model, sym, dense):
    """coefficients of `dense` in the independent operator basis: dict name -> Fraction (exact) or float;
    second result: exact?; third: residual ok?"""
    names, A, _ = _basis(model)
    dense = np.asarray(dense)
    if np.iscomplexobj(dense):
        if np.any(dense.imag != 0):
            return None, False, False
        dense = dense.real
    best = None
    for p in _perm_candidates(model, sym, dense):
        # dense index i of the returned array holds original state p[i]
        inv = np.argsort(p)
        d0 = dense[np.ix_(*([inv] * dense.ndim))]
        v = d0.ravel().astype(float)
        c, *_ = np.linalg.lstsq(A, v, rcond=None)
        cr = np.round(c)
        if np.array_equal(A @ cr, v):
            return {n: Fraction(int(x)) for n, x in zip(names, cr)}, True, True
        res = float(np.max(np.abs(A @ c - v)))
        if best is None or res < best[1]:
            best = (c, res)
    c, res = best
    scale = max(1.0, float(np.max(np.abs(dense))))
    return {n: float(x) for n, x in zip(names, c)}, False, res <= 1e-9 * scale


# --------------------------------------------------------------------------------------------
# quimb stand-in (only when quimb is not importable)


def _ensure_quimb():
    try:
        import quimb  # noqa

        return "stub" if getattr(quimb, "__stub__", False) else "real"
    except Exception:  # noqa
        pass
    import types

    class _Q(np.ndarray):
        def __and__(self, other):
            return np.kron(np.asarray(self), np.asarray(other)).view(_Q)

    def pauli(s, dtype="float64", **kw):
        m = {
            "I": [[1, 0], [0, 1]],
            "X": [[0, 1], [1, 0]],
            "Z": [[1, 0], [0, -1]],
            "Y": [[0, -1j], [1j, 0]],
        }[s.upper()]
        return np.array(m, dtype=dtype).view(_Q)

    def ham_heis(n, j=1.0, b=0.0, cyclic=False, **kw):
        assert n == 2
        sx = np.array([[0, 0.5], [0.5, 0]])
        sy = np.array([[0, -0.5j], [0.5j, 0]])
        sz = np.array([[0.5, 0], [0, -0.5]])
        h = j * (np.kron(sx, sx) + np.kron(sy, sy).real + np.kron(sz, sz))
        h = h - b * (np.kron(sz, np.eye(2)) + np.kron(np.eye(2), sz))
        return np.asarray(h.real).view(_Q)

    stub = types.ModuleType("quimb")
    stub.pauli = pauli
    stub.ham_heis = ham_heis
    stub.__stub__ = True
    sys.modules["quimb"] = stub
    return "stub"


# --------------------------------------------------------------------------------------------
# cases


def mk_label(kind, raw):
    if kind == "tuple":
        return tuple(raw)
    return raw


def gen_labels(rng, kind, n):
    """n distinct labels of one kind, returned sorted (rank = position)."""
    if kind == "int":
        pool = rng.sample(range(-7, 40), n) if rng.random() < 0.7 else list(range(n))
        return sorted(pool)
    if kind == "tuple":
        pool = [(i, j) for i in range(-1, 3) for j in range(-1, 3)]
        return sorted(rng.sample(pool, n))
    pool = ["a", "b", "c", "B", "aa", "ab", "s10", "s9", "s2", "x", "Z", "q1", "q0"]
    return sorted(rng.sample(pool, n))


def all_graphs(n):
    pairs = list(itertools.combinations(range(n), 2))
    for k in range(1, len(pairs) + 1):
        for sub in itertools.combinations(pairs, k):
            yield list(sub)


def rand_graph(rng, n):
    pairs = list(itertools.combinations(range(n), 2))
    k = rng.randint(1, len(pairs))
    return rng.sample(pairs, k)


def orient(rng, pairs):
    es = [list(p) if rng.random() < 0.5 else [p[1], p[0]] for p in pairs]
    rng.shuffle(es)
    return es


def mult60(rng, allow_zero=True):
    lo = 0 if allow_zero else 1
    v = 60 * rng.randint(lo, 9)
    return -v if rng.random() < 0.3 else v


def gen_edge_coef(rng, edges, nonzero=False):
    """canonical per-bond values + a presentation"""
    bonds = [tuple(sorted(e)) for e in edges]
    style = rng.choice(["scalar", "dict", "dict", "fn"])
    if style == "scalar":
        v = mult60(rng, not nonzero)
        vals = {b: v for b in bonds}
        return {"style": "scalar", "value": v, "vals": [[list(b), vals[b]] for b in bonds]}
    vals = {b: mult60(rng, not nonzero) for b in bonds}
    spec = {"style": style, "vals": [[list(b), vals[b]] for b in bonds]}
    if style == "dict":
        items = []
        for e, b in zip(edges, bonds):
            r = rng.random()
            if r < 0.4:
                items.append([list(e), vals[b]])  # as given
            elif r < 0.8:
                items.append([[e[1], e[0]], vals[b]])  # reversed
            else:
                items.append([list(e), vals[b]])
                items.append([[e[1], e[0]], vals[b]])
        rng.shuffle(items)
        spec["items"] = items
    return spec


def gen_node_coef(rng, nsites, used):
    style = rng.choice(["scalar", "dict", "dict", "fn"])
    if style == "scalar":
        v = mult60(rng)
        return {"style": "scalar", "value": v, "vals": [[s, v] for s in used]}
    vals = {s: mult60(rng) for s in used}
    spec = {"style": style, "vals": [[s, vals[s]] for s in used]}
    if style == "dict":
        items = [[s, vals[s]] for s in used]
        rng.shuffle(items)
        spec["items"] = items
    return spec


def gen_ham_case(rng, cid, pairs, nsites, model, sym, src):
    kind = rng.choice(["int", "tuple", "str"])
    labels = gen_labels(rng, kind, nsites)
    edges = orient(rng, pairs)
    used = sorted({s for e in edges for s in e})
    case = dict(cid=cid, what="ham", model=model, sym=sym, kind=kind,
                labels=[list(l) if kind == "tuple" else l for l in labels], edges=edges, src=src)
    coefs = {}
    if model == "hubbard":
        coefs["t"] = gen_edge_coef(rng, edges)
        coefs["U"] = gen_node_coef(rng, nsites, used)
        coefs["mu"] = gen_node_coef(rng, nsites, used)
    elif model == "spinless":
        coefs["t"] = gen_edge_coef(rng, edges)
        coefs["V"] = gen_edge_coef(rng, edges)
        coefs["mu"] = gen_node_coef(rng, nsites, used)
    elif model == "tfim":
        coefs["t"] = gen_edge_coef(rng, edges)  # jx
        coefs["U"] = gen_node_coef(rng, nsites, used)  # hz
    case["coefs"] = coefs
    return case


def gen_site_case(rng, cid, pairs, nsites, src):
    kind = rng.choice(["int", "tuple", "str"])
    labels = gen_labels(rng, kind, nsites)
    edges = orient(rng, pairs)
    phys = rng.choice([None, 2, 4, 3])
    fmt = dict(bond_ind_id=rng.choice(["b{}-{}", "bond[{}|{}]"]), site_ind_id="k{}", site_tag_id="I{}")
    if kind == "tuple" and rng.random() < 0.5:
        fmt["site_ind_id"] = "k{},{}"
        fmt["site_tag_id"] = rng.choice(["I{},{}", "I{}"])
    return dict(cid=cid, what="site", kind=kind, labels=[list(l) if kind == "tuple" else l for l in labels],
                edges=edges, bond_dim=rng.choice([1, 2, 3, 5]), phys_dim=phys, fmt=fmt, src=src)


# --------------------------------------------------------------------------------------------
# model requests


def _q(v):
    return int(v)


def edge_coef_req(spec):
    if spec["style"] == "scalar":
        return {"scalar": _q(spec["value"])}
    if spec["style"] == "dict":
        return {"dict": [[list(k), _q(v)] for k, v in spec["items"]]}
    tbl = []
    for b, v in spec["vals"]:
        tbl.append([[b[0], b[1]], _q(v)])
        tbl.append([[b[1], b[0]], _q(v)])
    return {"fn": tbl}


def node_coef_req(spec):
    if spec["style"] == "scalar":
        return {"scalar": _q(spec["value"])}
    if spec["style"] == "dict":
        return {"dict": [[s, _q(v)] for s, v in spec["items"]]}
    return {"fn": [[s, _q(v)] for s, v in spec["vals"]]}


def model_request(case):
    if case["what"] == "site":
        return dict(id=case["cid"], kind="siteInfo", edges=case["edges"], bond_dim=case["bond_dim"],
                    phys_dim=case["phys_dim"])
    r = dict(id=case["cid"], kind="hamTerms", model=case["model"], edges=case["edges"])
    c = case["coefs"]
    r["t"] = edge_coef_req(c["t"])
    if "V" in c:
        r["V"] = edge_coef_req(c["V"])
    if "U" in c:
        r["U"] = node_coef_req(c["U"])
    if "mu" in c:
        r["mu"] = node_coef_req(c["mu"])
    return r


def frac(q):
    return Fraction(int(q[0]), int(q[1]))


def model_edge_coefs(model, resp):
    """driver answer -> {(a,b): {basis name: Fraction}}, {(a,b): args}"""
    out, args = {}, {}
    for item in resp["ok"]:
        a, b = item["edge"]
        acc = {}
        for q, kind, sites in item["terms"]:
            if len(sites) == 2:
                pos = "ab" if sites == [a, b] else ("ba" if sites == [b, a] else "??")
            else:
                pos = "a" if sites == [a] else ("b" if sites == [b] else "??")
            name = f"{kind}_{pos}"
            if kind == "nn" or kind == "xx":
                name = f"{kind}_ab" if pos in ("ab", "ba") else name
            acc[name] = acc.get(name, Fraction(0)) + frac(q)
        out[(a, b)] = acc
        args[(a, b)] = {k: (frac(v) if isinstance(v, list) else v) for k, v in item["args"].items()}
    return out, args


# --------------------------------------------------------------------------------------------
# implementation side


def _coef_py(spec, labels, edge):
    """the Python object passed to the builder"""
    if spec["style"] == "scalar":
        return float(spec["value"])
    if edge:
        if spec["style"] == "dict":
            return {(labels[k[0]], labels[k[1]]): float(v) for k, v in spec["items"]}
        tbl = {frozenset((labels[b[0]], labels[b[1]])): float(v) for b, v in spec["vals"]}
        return lambda x, y: tbl[frozenset((x, y))]
    if spec["style"] == "dict":
        return {labels[s]: float(v) for s, v in spec["items"]}
    tbl = {labels[s]: float(v) for s, v in spec["vals"]}
    return lambda x: tbl[x]


def run_ham_impl(case, margs=None):
    """call the real builder; returns observation dict"""
    import symmray.hamiltonians as H

    kind = case["kind"]
    labels = [mk_label(kind, l) for l in case["labels"]]
    rank = {l: i for i, l in enumerate(labels)}
    edges = [(labels[a], labels[b]) for a, b in case["edges"]]
    c = case["coefs"]
    model, sym = case["model"], case["sym"]
    try:
        if model == "hubbard":
            res = H.ham_fermi_hubbard_from_edges(sym, edges, t=_coef_py(c["t"], labels, True),
                                                 U=_coef_py(c["U"], labels, False),
                                                 mu=_coef_py(c["mu"], labels, False))
        elif model == "spinless":
            res = H.ham_fermi_hubbard_spinless_from_edges(sym, edges, t=_coef_py(c["t"], labels, True),
                                                          V=_coef_py(c["V"], labels, True),
                                                          mu=_coef_py(c["mu"], labels, False))
        elif model == "tfim":
            _ensure_quimb()
            res = H.ham_tfim_from_edges(sym, edges, jx=_coef_py(c["t"], labels, True),
                                        hz=_coef_py(c["U"], labels, False))
        else:
            raise ValueError(model)
    except Exception as e:  # noqa
        return {"raise": type(e).__name__, "msg": str(e)[:200]}
    obs = {"keys": [], "edges": {}}
    for key, arr in res.items():
        try:
            a, b = rank[key[0]], rank[key[1]]
        except Exception:  # noqa
            obs["keys"].append(["?", repr(key)])
            continue
        obs["keys"].append([a, b])
        try:
            dense = np.asarray(arr.to_dense())
        except Exception as e:  # noqa
            obs["edges"][f"{a},{b}"] = {"error": f"to_dense: {type(e).__name__}: {e}"[:200]}
            continue
        coefs, exact, resok = project(model, sym, dense)
        ent = {"exact": exact, "resok": resok, "fermionic": bool(getattr(arr, "fermionic", False)),
               "sym": str(getattr(arr, "symmetry", "")),
               "coefs": None if coefs is None else {k: (str(v) if exact else v) for k, v in coefs.items()}}
        if margs is not None and f"{a},{b}" in margs:
            ent["direct_equal"] = _direct_equal(model, sym, margs[f"{a},{b}"], dense)
        obs["edges"][f"{a},{b}"] = ent
    return obs


def _direct_equal(model, sym, g, dense):
    """the two-site constructor called directly with the arguments the model says the builder passes"""
    import symmray as sr

    try:
        f = lambda q: float(Fraction(q))  # noqa
        if model == "hubbard":
            x = sr.fermi_hubbard_local_array(sym, t=f(g["t"]), U=(f(g["Ua"]), f(g["Ub"])),
                                             mu=(f(g["mua"]), f(g["mub"])), coordinations=(g["ca"], g["cb"]))
        elif model == "spinless":
            x = sr.fermi_hubbard_spinless_local_array(sym, t=f(g["t"]), V=f(g["V"]),
                                                      mu=(f(g["mua"]), f(g["mub"])),
                                                      coordinations=(g["ca"], g["cb"]))
        else:
            from symmray.hamiltonians import tfim_local_array

            x = tfim_local_array(sym, jx=f(g["t"]), hz=(f(g["Ua"]), f(g["Ub"])), coordinations=(g["ca"], g["cb"]))
        return bool(np.array_equal(np.asarray(x.to_dense()), dense))
    except Exception as e:  # noqa
        return f"error {type(e).__name__}: {e}"[:200]


def run_site_impl(case):
    from symmray.networks import parse_edges_to_site_info

    kind = case["kind"]
    labels = [mk_label(kind, l) for l in case["labels"]]
    rank = {l: i for i, l in enumerate(labels)}
    edges = [(labels[a], labels[b]) for a, b in case["edges"]]
    try:
        info = parse_edges_to_site_info(edges, case["bond_dim"], phys_dim=case["phys_dim"], **case["fmt"])
    except Exception as e:  # noqa
        return {"raise": type(e).__name__, "msg": str(e)[:200]}
    out = {}
    for site, d in info.items():
        r = rank.get(site, repr(site))
        out[str(r)] = dict(inds=[str(x) for x in d.get("inds", [])], duals=[int(bool(x)) for x in d.get("duals", [])],
                           shape=[int(x) for x in d.get("shape", [])], coordination=d.get("coordination"),
                           tags=[str(x) for x in d.get("tags", ())])
    return {"sites": out}


def run_heis_impl(case):
    import symmray.hamiltonians as H

    which = _ensure_quimb()
    kind = case["kind"]
    labels = [mk_label(kind, l) for l in case["labels"]]
    rank = {l: i for i, l in enumerate(labels)}
    edges = [(labels[a], labels[b]) for a, b in case["edges"]]
    try:
        res = H.ham_heisenberg_from_edges(case["sym"], edges)
    except Exception as e:  # noqa
        return {"raise": type(e).__name__, "msg": str(e)[:200], "quimb": which}
    ds = [np.asarray(v.to_dense()) for v in res.values()]
    same = all(np.array_equal(ds[0], d) for d in ds[1:])
    sx = np.array([[0, 0.5], [0.5, 0]])
    sy = np.array([[0, -0.5j], [0.5j, 0]])
    sz = np.array([[0.5, 0], [0, -0.5]])
    ref = (np.kron(sx, sx) + np.kron(sy, sy).real + np.kron(sz, sz)).reshape(2, 2, 2, 2)
    return {"keys": [[rank[k[0]], rank[k[1]]] for k in res], "same": bool(same),
            "heis": bool(np.allclose(ds[0], ref, atol=1e-12)), "quimb": which}


def worker(cases, margs_by_cid):
    sys.setrecursionlimit(10000)
    out = []
    for case in cases:
        if case["what"] == "site":
            out.append((case["cid"], run_site_impl(case)))
        elif case["model"] == "heis":
            out.append((case["cid"], run_heis_impl(case)))
        else:
            out.append((case["cid"], run_ham_impl(case, margs_by_cid.get(case["cid"]))))
    return out


# --------------------------------------------------------------------------------------------
# direct oracles (no Lean)

_ONSITE = {
    "hubbard": [("dbl", "U", 1), ("numu", "mu", -1), ("numd", "mu", -1)],
    "spinless": [("num", "mu", -1)],
    "tfim": [("zf", "U", 1)],
}
_BOND = {
    "hubbard": [("hopu_ab", "t", -1), ("hopu_ba", "t", -1), ("hopd_ab", "t", -1), ("hopd_ba", "t", -1)],
    "spinless": [("hop_ab", "t", -1), ("hop_ba", "t", -1), ("nn_ab", "V", 1)],
    "tfim": [("xx_ab", "t", 1)],
}


def _num(x):
    return Fraction(x) if isinstance(x, str) else x


def _eq(x, y):
    if isinstance(x, Fraction) and isinstance(y, Fraction):
        return x == y
    return abs(float(x) - float(y)) <= 1e-9 * max(1.0, abs(float(x)), abs(float(y)))


def oracle_ham(case, obs):
    """list of human-readable failures of the property on the real output (empty = holds)"""
    fails = []
    if "raise" in obs:
        return [f"builder raised {obs['raise']}: {obs.get('msg')} although every coefficient is specified"]
    edges = [tuple(e) for e in case["edges"]]
    keys = [tuple(k) for k in obs["keys"]]
    if sorted(map(repr, keys)) != sorted(map(repr, edges)):
        fails.append(f"dict keys {keys} are not the edges as given {edges}")
        return fails
    c = case["coefs"]
    bondval = {n: {tuple(b): Fraction(v) for b, v in c[n]["vals"]} for n in c if n in ("t", "V")}
    nodeval = {n: {s: Fraction(v) for s, v in c[n]["vals"]} for n in c if n in ("U", "mu")}
    model = case["model"]
    per = {}
    for e in edges:
        ent = obs["edges"].get(f"{e[0]},{e[1]}")
        if ent is None or ent.get("error"):
            fails.append(f"edge {e}: no dense form ({ent})")
            continue
        if not ent["resok"] or ent["coefs"] is None:
            fails.append(f"edge {e}: returned array is not a combination of the model's elementary operators")
            continue
        per[e] = {k: _num(v) for k, v in ent["coefs"].items()}
    if fails:
        return fails
    for e in edges:
        b = tuple(sorted(e))
        for name, cname, sgn in _BOND[model]:
            want = sgn * bondval[cname][b]
            if not _eq(per[e][name], want):
                fails.append(f"edge {e}: coefficient of {name} is {per[e][name]}, bond specifies {cname}={bondval[cname][b]}")
    sites = sorted({s for e in edges for s in e})
    for v in sites:
        for op, cname, sgn in _ONSITE[model]:
            tot = 0
            for e in edges:
                if e[0] == v:
                    tot = tot + per[e][f"{op}_a"]
                if e[1] == v:
                    tot = tot + per[e][f"{op}_b"]
            want = sgn * nodeval[cname][v]
            if not _eq(tot, want):
                deg = sum((e[0] == v) + (e[1] == v) for e in edges)
                fails.append(f"site {v} (degree {deg}): {op} coefficients over its edges total {tot}, specified {cname}={nodeval[cname][v]}")
    return fails


def _fmt_name(fmt, label):
    if fmt.count("{}") > 1:
        return fmt.format(*label)
    return fmt.format(label)


def oracle_site(case, obs):
    fails = []
    if "raise" in obs:
        return [f"parse_edges_to_site_info raised {obs['raise']}: {obs.get('msg')}"]
    sites = obs["sites"]
    edges = [tuple(e) for e in case["edges"]]
    used = sorted({s for e in edges for s in e})
    if sorted(sites) != sorted(str(s) for s in used):
        return [f"described sites {sorted(sites)} are not the sites of the edges {used}"]
    kind = case["kind"]
    labels = [mk_label(kind, l) for l in case["labels"]]
    phys = case["phys_dim"]
    nb = {}
    for v in used:
        d = sites[str(v)]
        deg = sum((e[0] == v) + (e[1] == v) for e in edges)
        n = len(d["inds"])
        if not (len(d["duals"]) == n and len(d["shape"]) == n):
            fails.append(f"site {v}: inds/duals/shape lengths differ")
            continue
        if d["coordination"] != deg:
            fails.append(f"site {v}: coordination {d['coordination']} but degree {deg}")
        k = n - (0 if phys is None else 1)
        if k != deg:
            fails.append(f"site {v}: {k} bond legs but degree {deg}")
        if phys is not None:
            want = _fmt_name(case["fmt"]["site_ind_id"], labels[v])
            if n == 0 or d["inds"][-1] != want or d["duals"][-1] != 0 or d["shape"][-1] != phys:
                fails.append(f"site {v}: physical index is not last / non-dual / of size {phys}: {d}")
        for i in range(max(0, k)):
            if d["shape"][i] != case["bond_dim"]:
                fails.append(f"site {v}: bond leg {i} has size {d['shape'][i]} not {case['bond_dim']}")
            nb.setdefault(d["inds"][i], []).append((v, d["duals"][i]))
        if len(set(d["inds"])) != n:
            fails.append(f"site {v}: repeated index name {d['inds']}")
    # every bond name sits at exactly the two ends of one edge, with opposite directions; one name per edge
    ends_seen = {}
    for name, occ in nb.items():
        if len(occ) != 2:
            fails.append(f"bond index {name} occurs {len(occ)} times: {occ}")
            continue
        (v1, d1), (v2, d2) = occ
        if {d1, d2} != {0, 1}:
            fails.append(f"bond index {name}: directions at its ends {v1},{v2} are {d1},{d2} (not opposite)")
        ends_seen.setdefault(frozenset((v1, v2)), []).append(name)
    want_ends = {frozenset(e) for e in edges}
    if set(ends_seen) != want_ends or any(len(v) != 1 for v in ends_seen.values()):
        fails.append(f"bond names join {sorted(map(sorted, ends_seen))}, edges are {sorted(map(sorted, want_ends))}")
    return fails


# --------------------------------------------------------------------------------------------
# model comparison


def compare_ham(case, obs, resp):
    """differences between the real output and the Lean model (empty = agree)"""
    diffs = []
    if "raise" in resp:
        if "raise" not in obs:
            diffs.append(f"model raises {resp['raise']}, implementation returns")
        return diffs
    if "raise" in obs:
        return [f"implementation raises {obs['raise']}, model returns"]
    mco, _ = model_edge_coefs(case["model"], resp)
    keys = [tuple(k) for k in obs["keys"]]
    if sorted(map(repr, keys)) != sorted(map(repr, mco)):
        diffs.append(f"keys impl {keys} model {sorted(mco)}")
        return diffs
    for e, mc in mco.items():
        ent = obs["edges"].get(f"{e[0]},{e[1]}")
        if ent is None or ent.get("error") or ent["coefs"] is None or not ent["resok"]:
            diffs.append(f"edge {e}: no coefficients recovered ({ent})")
            continue
        ic = {k: _num(v) for k, v in ent["coefs"].items()}
        for name in set(ic) | set(mc):
            x, y = ic.get(name, Fraction(0)), mc.get(name, Fraction(0))
            if not _eq(x, y):
                diffs.append(f"edge {e}: {name} impl {x} model {y}")
        de = ent.get("direct_equal")
        if de is not None and de is not True:
            diffs.append(f"edge {e}: two-site constructor called with the model's arguments differs: {de}")
    return diffs


def expected_site(case, resp):
    kind = case["kind"]
    labels = [mk_label(kind, l) for l in case["labels"]]
    fmt = case["fmt"]
    out = {}
    for s in resp["sites"]:
        inds = []
        for n in s["inds"]:
            if n[0] == "b":
                inds.append(fmt["bond_ind_id"].format(labels[n[1]], labels[n[2]]))
            else:
                inds.append(_fmt_name(fmt["site_ind_id"], labels[n[1]]))
        out[str(s["site"])] = dict(inds=inds, duals=list(s["duals"]), shape=list(s["shape"]),
                                   coordination=s["coordination"],
                                   tags=[_fmt_name(fmt["site_tag_id"], labels[s["tag"]])])
    return out


def compare_site(case, obs, resp):
    if "raise" in obs:
        return [f"implementation raises {obs['raise']}"]
    exp = expected_site(case, resp)
    diffs = []
    if sorted(exp) != sorted(obs["sites"]):
        return [f"sites impl {sorted(obs['sites'])} model {sorted(exp)}"]
    for v in exp:
        if exp[v] != obs["sites"][v]:
            diffs.append(f"site {v}: impl {obs['sites'][v]} model {exp[v]}")
    return diffs


# --------------------------------------------------------------------------------------------
# shrinking


def _restrict(case, keep_edges):
    c = dict(case)
    c["edges"] = keep_edges
    if case["what"] == "site":
        return c
    bonds = {tuple(sorted(e)) for e in keep_edges}
    used = {s for e in keep_edges for s in e}
    co = {}
    for n, spec in case["coefs"].items():
        sp = dict(spec)
        if n in ("t", "V"):
            sp["vals"] = [[b, v] for b, v in spec["vals"] if tuple(b) in bonds]
            if "items" in spec:
                sp["items"] = [[k, v] for k, v in spec["items"] if tuple(sorted(k)) in bonds]
        else:
            sp["vals"] = [[s, v] for s, v in spec["vals"] if s in used]
            if "items" in spec:
                sp["items"] = [[s, v] for s, v in spec["items"] if s in used]
        co[n] = sp
    c["coefs"] = co
    return c


def _fails(case):
    if case["what"] == "site":
        return oracle_site(case, run_site_impl(case))
    return oracle_ham(case, run_ham_impl(case))


def shrink(case):
    cur = case
    changed = True
    while changed and len(cur["edges"]) > 1:
        changed = False
        for i in range(len(cur["edges"])):
            cand = _restrict(cur, cur["edges"][:i] + cur["edges"][i + 1:])
            try:
                if _fails(cand):
                    cur = cand
                    changed = True
                    break
            except Exception:  # noqa
                continue
    return cur


# --------------------------------------------------------------------------------------------
# run


def _degrees(case):
    deg = {}
    for a, b in case["edges"]:
        deg[a] = deg.get(a, 0) + 1
        deg[b] = deg.get(b, 0) + 1
    return deg


def _nontrivial_key(case):
    deg = _degrees(case)
    if max(deg.values()) < 2:
        return None
    if case["what"] == "site":
        if not any(a > b for a, b in case["edges"]):
            return None
        return ("site", case["kind"], tuple(sorted(deg.values())), case["phys_dim"] is None,
                tuple(map(tuple, case["edges"])))
    if case["model"] == "heis":
        return None
    c = case["coefs"]
    ok = False
    for n in ("U", "mu"):
        if n in c:
            vals = dict((s, v) for s, v in c[n]["vals"])
            if any(vals.get(s, 0) != 0 and d >= 2 for s, d in deg.items()):
                ok = True
    if not ok:
        return None
    return (case["model"], case["sym"], case["kind"], tuple(sorted(deg.values())),
            tuple(sorted((n, s["style"]) for n, s in c.items())), tuple(map(tuple, case["edges"])))


def build_cases(ctx):
    rng = ctx.rng
    quick = ctx.tier == "quick"
    graphs = []
    for n in (2, 3):
        for g in all_graphs(n):
            graphs.append((g, n, "exh"))
    g4 = list(all_graphs(4))
    if quick:
        g4s = rng.sample(g4, 30)
        # always keep the star, the path, the cycle and the complete graph
        for must in ([(0, 1), (0, 2), (0, 3)], [(0, 1), (1, 2), (2, 3)], [(0, 1), (0, 3), (1, 2), (2, 3)], g4[-1]):
            if must not in g4s:
                g4s.append(must)
    else:
        g4s = g4
    for g in g4s:
        graphs.append((g, 4, "exh"))
    ctx.exhaustive = not quick
    configs = [("hubbard", s) for s in SPINFUL_SYMS] + [("spinless", s) for s in SPINLESS_SYMS] + [("tfim", "Z2")]
    reps = 2 if quick else 6
    cases = []
    cid = 0
    for g, n, src in graphs:
        for model, sym in configs:
            for _ in range(reps):
                cases.append(gen_ham_case(rng, cid, g, n, model, sym, src))
                cid += 1
        for _ in range(3 if quick else 8):
            cases.append(gen_site_case(rng, cid, g, n, src))
            cid += 1
    nrand = 120 if quick else 1500
    for _ in range(nrand):
        n = rng.choice([5, 6])
        g = rand_graph(rng, n)
        model, sym = rng.choice(configs)
        cases.append(gen_ham_case(rng, cid, g, n, model, sym, "rand"))
        cid += 1
        cases.append(gen_site_case(rng, cid, g, n, "rand"))
        cid += 1
    # Heisenberg: keys / same operator on every edge
    for _ in range(4 if quick else 20):
        n = rng.choice([3, 4, 5])
        g = rand_graph(rng, n)
        c = gen_ham_case(rng, cid, g, n, "heis", rng.choice(["Z2", "U1"]), "rand")
        cases.append(c)
        cid += 1
    return cases


def run(ctx):
    from .. import tie

    # translation tie: Lean definitions regenerated from /repo's source + equality theorems with the model
    ctx.tie = tie.run_tie(ctx, tie.FUNCTIONS["C19"])
    cases = build_cases(ctx)
    by_cid = {c["cid"]: c for c in cases}
    reqs = [model_request(c) for c in cases if not (c["what"] == "ham" and c["model"] == "heis")]
    resp = ctx.model(reqs)
    margs = {}
    if resp is not None:
        for c in cases:
            r = resp.get(c["cid"])
            if r is None:
                continue
            if "bad" in r:
                ctx.correspondence_broken("lean-driver-request", f"case {c['cid']}: {r['bad']}")
                resp = None
                break
            if c["what"] == "ham" and "ok" in r:
                _, a = model_edge_coefs(c["model"], r)
                # pass the model's constructor arguments for a subsample of edges
                pick = list(a)[:: max(1, len(a) // 2)]
                margs[c["cid"]] = {f"{e[0]},{e[1]}": {k: (str(v) if isinstance(v, Fraction) else v)
                                                     for k, v in a[e].items()} for e in pick}
    # run the real code in workers
    nchunk = 48
    chunks = [cases[i::nchunk] for i in range(nchunk)]
    arglist = [(ch, {c["cid"]: margs[c["cid"]] for c in ch if c["cid"] in margs}) for ch in chunks if ch]
    results = {}
    for part in ctx.pmap(MOD, "worker", arglist):
        for cid, obs in part:
            results[cid] = obs

    for c in cases:
        obs = results[c["cid"]]
        ctx.evaluations += 1
        ctx.stat(f"what:{c['what']}")
        ctx.stat(f"labels:{c['kind']}")
        ctx.stat(f"src:{c['src']}")
        ctx.stat(f"nedges:{len(c['edges'])}")
        if c["what"] == "ham":
            ctx.stat(f"model:{c['model']}:{c['sym']}")
            for n, s in c.get("coefs", {}).items():
                ctx.stat(f"coef:{n}:{s['style']}")
        key = _nontrivial_key(c)
        if key is not None:
            ctx.mark_nontrivial(key)
        ctx.sample({k: c[k] for k in c if k != "src"}, limit=3)

        if c["what"] == "ham" and c["model"] == "heis":
            ctx.stat(f"quimb:{obs.get('quimb')}")
            edges = sorted(map(tuple, c["edges"]))
            if "raise" in obs or sorted(map(tuple, obs["keys"])) != edges or not obs["same"] or not obs["heis"]:
                ctx.disagreements_checked += 1
                ctx.violation("ham_heisenberg_from_edges: keys are not the edges / operators differ / not S.S",
                              c, triggers=["heisenberg"], detail=obs, op="ham_heisenberg_from_edges")
            continue

        if c["what"] == "ham":
            fails = oracle_ham(c, obs)
            diffs = compare_ham(c, obs, resp[c["cid"]]) if resp is not None else []
            opname = {"hubbard": "ham_fermi_hubbard_from_edges", "spinless": "ham_fermi_hubbard_spinless_from_edges",
                      "tfim": "ham_tfim_from_edges"}[c["model"]]
        else:
            fails = oracle_site(c, obs)
            diffs = compare_site(c, obs, resp[c["cid"]]) if resp is not None else []
            opname = "parse_edges_to_site_info"
        if fails or diffs:
            ctx.disagreements_checked += 1
        if fails:
            small = c
            try:
                small = shrink(c)
                sf = _fails(small) or fails
            except Exception:  # noqa
                sf = fails
            trig = [c["what"]] + ([c["model"], c["sym"]] if c["what"] == "ham" else [])
            ctx.violation(f"{opname}: " + sf[0], {k: small[k] for k in small if k != "src"}, triggers=trig,
                          detail=dict(failures=sf[:6], model_diffs=diffs[:4]), op=opname)
        elif diffs:
            ctx.correspondence_broken(
                f"{opname} vs Lean model", f"case {c['cid']} edges={c['edges']} labels={c['labels']}: " + "; ".join(diffs[:4]))
    complex_hopping_stream(ctx)
    ctx.notes.append("ham_heisenberg_from_edges does not divide anything: every edge gets qu.ham_heis(2, **kwargs); "
                     "a field `b` passed through kwargs would be counted once per incident edge (no coordination "
                     "argument exists); checked here only: keys = edges, one S.S operator on every edge")


def complex_hopping_stream(ctx):
    """complex (Peierls-phase) hoppings next to real on-site terms: the builders are linear in the
    hopping, so every edge array for t = tr + i*ti must equal array(tr, U, mu) + i * array(ti, 0, 0)
    exactly (small integers / 4).  Real code only (the Lean model of the builders is rational)."""
    import symmray.hamiltonians as H

    rng = ctx.rng
    for _ in range(8 if ctx.tier == "quick" else 60):
        model = rng.choice(["hubbard", "spinless"])
        sym = rng.choice(SPINFUL_SYMS if model == "hubbard" else SPINLESS_SYMS)
        n = rng.randint(2, 4)
        pairs = [(i, i + 1) for i in range(n - 1)] + ([(0, n - 1)] if n > 2 and rng.random() < 0.5 else [])
        edges = orient(rng, pairs)
        tr = {tuple(sorted(e)): rng.randint(-4, 4) / 4 for e in edges}
        ti = {tuple(sorted(e)): rng.choice([-1, 1]) * rng.randint(1, 4) / 4 for e in edges}
        mu = {s: 12 * rng.randint(1, 3) * rng.choice([-1, 1]) for s in range(n)}  # real, non-zero
        on = {s: 12 * rng.randint(0, 3) for s in range(n)}
        V = rng.randint(-3, 3)

        def build(tfn, mufn, onfn, v):
            if model == "hubbard":
                return H.ham_fermi_hubbard_from_edges(sym, edges, t=tfn, U=onfn, mu=mufn)
            return H.ham_fermi_hubbard_spinless_from_edges(sym, edges, t=tfn, V=v, mu=mufn)

        ctx.evaluations += 1
        ctx.stat(f"complex_hopping:{model}:{sym}")
        case = dict(what="complex_hopping", model=model, sym=sym, edges=[list(e) for e in edges],
                    t=[[list(k), [tr[k], ti[k]]] for k in tr], mu=mu, onsite=on, V=V)
        try:
            full = build(lambda a, b: complex(tr[tuple(sorted((a, b)))], ti[tuple(sorted((a, b)))]),
                         lambda s_: float(mu[s_]), lambda s_: float(on[s_]), float(V))
            re_ = build(lambda a, b: tr[tuple(sorted((a, b)))], lambda s_: float(mu[s_]), lambda s_: float(on[s_]), float(V))
            im_ = build(lambda a, b: ti[tuple(sorted((a, b)))], lambda s_: 0.0, lambda s_: 0.0, 0.0)
        except Exception as e:  # noqa
            ctx.violation(f"builder raised with a complex hopping: {type(e).__name__}: {e}", case,
                          triggers=["complex_hopping"], op="ham_from_edges")
            return
        for key in re_:
            got = np.asarray(full[key].to_dense())
            exp = np.asarray(re_[key].to_dense()) + 1j * np.asarray(im_[key].to_dense())
            if not np.array_equal(got, exp):
                ctx.violation(f"edge {key}: the term built for a complex hopping is not the real-part term plus i times "
                              f"the imaginary-part hopping term (dtype {got.dtype}): the edge terms do not add up to "
                              f"the lattice Hamiltonian", case, triggers=["complex_hopping"], op="ham_from_edges",
                              detail=dict(max_abs_diff=float(np.max(np.abs(got - exp)))))
                return


def replay(ctx, payload):
    case = payload.get("case")
    if not isinstance(case, dict) or "what" not in case:
        print("replay: no case in payload")
        return 2
    case = dict(case)
    case.setdefault("src", "replay")
    fails = _fails(case)
    if fails:
        print(f"VIOLATION property={ID} replay reproduces: {fails[0]}")
        return 1
    print("replay: property holds on this case")
    return 0
