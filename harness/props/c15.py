"""C15 — results do not depend on call history, caches or threads.

Streams (see RULE):
  (a) key-collision pattern of `cached_fuse_block_info` keys over near-identical families;
  (b) results under cold / warm / evicting caches, SYMMRAY_FUSE_CACHE_MAXSIZE in subprocesses,
      for every ordering of <= 4 calls; cache contents order against the Lean cache model;
  (c) nested `default_tensordot_mode` blocks with raising bodies against `ModeCtx`, including
      context managers created before they are entered (in any order relative to other
      entries / exits / set_default_tensordot_mode calls, nested, with raising bodies) and the
      decorator form; translated for the model as `with <mode>` at the point of ENTRY.  The clean
      library's context managers are one-shot, so re-entering one instance is not exercised;
  (d) thread stress against sequential results;
  (e) forced thread schedules (scheduling dictionary) against the Lean thread machine;
  (f) lru_cache'd pure helpers against their un-memoised functions;
  (g) line-level pre-emption exploration: thread A runs fuse / tensordot(fused) / reshape under a
      trace function restricted to the symmray package and is parked before its k-th line event
      while thread B runs a complete operation (other key, equal key, twice), for cold and warm
      histories and cache sizes 1 / default; A's result, B's results and a following sequential
      B, A, B are compared with the sequential references (value view + index tables).  Quick:
      every line of cached_fuse_block_info itself plus a strided sample of its callees' and the
      outer lines; thorough: every line event.  A finding carries (scenario, k, file:line) and is
      replayable with --replay.

What alarms: a result (array / plan / mode) that differs from the history-free one, or an
exception that the history-free call does not raise.  What does not: hit/miss counts (finding
#16: extra misses are benign), the cache replacement policy (the Lean theorems are proved for
every policy: move-to-end or not, evict oldest or newest — a drift is recorded as a note), the
order of dicts.  The cache model itself is tied by (b)/(e): if the real cache follows none of
the proved policies the correspondence is reported as broken.
"""

import copy
import hashlib
import itertools
import json
import os
import random
import subprocess
import sys
import threading
import time
import traceback
from collections import OrderedDict

ID = "C15"
LEVEL = "proof"
PROPS_MODULE = "SymmModel.Props.C15"
_NS = "SymmModel.C15."
THEOREMS = [
    _NS + t
    for t in (
        "cache_coherent_all_histories",
        "cache_coherent_from_warm",
        "cache_size_bounded",
        "cache_size_bounded_step",
        "memo_pure",
        "interleaving_results_correct",
        "interleaving_no_raise",
        "interleaving_no_raise_unrepaired_partial",
        "interleaving_no_raise_unrepaired_false",
        "call_eq_single_thread",
        "key_complete",
        "key_exact",
        "fuse_cache_history_independent",
        "fuse_cache_schedule_independent",
        "mode_ctx_restores",
        "mode_ctx_propagates",
        "mode_ctx_restores_nested",
        "mode_set_none_noop",
        "mode_set_some",
    )
]
LEAN_FILES = [
    "SymmModel.Model.Cache",
    "SymmModel.Proofs.C15",
    "SymmModel.Props.C15",
    "SymmModel.Driver.CacheH",
]
RULE = (
    "families of (array, axes_groups) that differ from a random base in exactly one attribute "
    "(one dualness, one block size, one charge label, one missing sector (two different ones), "
    "sector order, symmetry, groups, sub-index dualness / tables / order / extents under an identical "
    "fused table — for a leg fused once and for a leg fused twice, where the members agree on the "
    "first-level sub-index tables and extents and differ only at the second level —, arrays derived "
    "by conj from already-hashed ones; generic-class twins: sr.AbelianArray / sr.FermionicArray built "
    "with symmetry Z2 / Z4 / U1 (Z2Z2 / U1U1) given as a name and as an object over identical index "
    "tables, dualnesses, stored sector lists and groups); every ordering of <= 4 cached "
    "calls over a family under SYMMRAY_FUSE_CACHE_MAXSIZE in {0,1,2,8192} (subprocesses); random "
    "mixed fuse/tensordot(fused)/reshape/unfuse(all levels) histories; forced schedules of 2-4 threads over "
    "the five atomic dict operations; single pre-emptions of one thread before each line event of a "
    "cached public operation while another thread runs a whole operation; thread stress; random "
    "nested mode-context programs. "
    "Non-trivial: a history with at least one hit, one eviction or one key pair differing in a "
    "single attribute; a schedule in which two threads are inside the call at the same time; "
    "a mode program in which a body raises inside a with-block."
)
ANCHORS = {
    "abelian_core.py": [
        "hasher",
        "BlockIndex",
        "SubIndexInfo",
        "cached_fuse_block_info",
        "calc_fuse_block_info",
        "calc_fuse_group_info",
        "calc_reshape_args",
        "get_default_tensordot_mode",
        "set_default_tensordot_mode",
        "default_tensordot_mode",
    ],
    "symmetries.py": ["get_symmetry", "calc_phase_permutation", "sign_scalar", "sign_tuple"],
    "linalg.py": ["calc_sub_max_bonds"],
}
ASSUMPTIONS = [
    "sha1(pickle.dumps(.)) is injective on the key trees (KTree) that occur",
    "each OrderedDict operation (__getitem__, move_to_end, __setitem__, __len__, popitem) is atomic "
    "under the GIL and everything between two of them is thread local",
    "SubIndexInfo.hashkey pickles the sub-index objects (finding #16): the real key refines the model "
    "key by memo/identity state; only 'equal real keys => equal model keys' is claimed",
    "real thread schedules are sampled (stress) or replayed from a sampled set (forced), not enumerated",
    "functools.lru_cache is modelled as the same association-list cache with key = argument tuple "
    "(Python == on the arguments)",
]
TRUSTED_EXTRA = [
    "the scheduling dictionary (OrderedDict subclass installed as abelian_core._fuseinfos by the "
    "harness) serialises dict operations of registered threads exactly in the replayed order",
]

MAXSIZES_QUICK = [0, 1, 2, 8192, -1]
MAXSIZES_THOROUGH = [0, 1, 2, 3, -1, 8192]
MARK = "C15RESULT "
OPS = ("fuse", "tdot", "reshape", "fuse_unfuse", "unfuse_deep")


# =============================================================================== members


def _tup(c):
    return tuple(c) if isinstance(c, (list, tuple)) else c


def _pool(sym):
    from .. import gen

    return gen.charge_pool(sym)


def build_raw(desc):
    """array of a description, before `prefuse` / `derive`"""
    import numpy as np
    import symmray as sr
    from .. import gen

    sym = desc["sym"]
    indices = tuple(
        sr.BlockIndex({_tup(c): d for c, d in ix["cm"]}, dual=ix["dual"]) for ix in desc["indices"]
    )
    blocks = {}
    for s in desc["sectors"]:
        sec = tuple(_tup(c) for c in s)
        shape = tuple(ix.chargemap[c] for ix, c in zip(indices, sec))
        rng = random.Random(f"{desc['seed']}:{sec}")
        n = 1
        for d in shape:
            n *= d
        blocks[sec] = np.array([rng.randint(-3, 3) or 1 for _ in range(n)], dtype="float64").reshape(shape)
    cls, kw = gen.array_class(sym, desc.get("fermi", False), desc.get("static", True))
    if desc.get("symobj"):
        # generic class with the symmetry given as an object instead of its name
        from symmray.symmetries import get_symmetry

        cls = sr.FermionicArray if desc.get("fermi") else sr.AbelianArray
        kw["symmetry"] = get_symmetry(sym)
    if desc.get("fermi") and gen.py_parity(sym, _tup(desc["charge"])):
        kw["oddpos"] = 7
    return cls(indices=indices, charge=_tup(desc["charge"]), blocks=blocks, **kw)


def build_member(desc):
    """(array, groups).  `prefuse`: the member is a fused array (its first index carries
    sub-index information).  `derive`: the member is obtained from an array whose indices have
    already been hashed (memoised `_hashkey`), through a public operation."""
    from symmray import abelian_core as ac

    x = build_raw(desc)
    if desc.get("prefuse"):
        ac._fuseinfos.clear()  # a cold call: building a member must not depend on the history
        x = x.fuse(*[tuple(g) for g in desc["prefuse"]])
        if desc.get("prefuse2"):
            # fuse once more: the first index becomes a fused index of depth 2
            ac._fuseinfos.clear()
            x = x.fuse(*[tuple(g) for g in desc["prefuse2"]])
        if desc.get("sort_blocks"):
            x = x.copy_with(blocks=dict(sorted(x.blocks.items())))
    groups = tuple(tuple(g) for g in desc["groups"])
    der = desc.get("derive")
    if der:
        # hash the source first (through the real cached call when the cache is enabled)
        ac._fuseinfos.clear()
        x.fuse(*groups)
        for ix in x.indices:
            ix.hashkey()
        if der == "conj":
            x = x.conj()
        elif der == "conj2":
            x = x.conj().conj()
        elif der == "sync":
            x = x.sync_charges()
        else:
            raise ValueError(der)
    return x, groups


def _valid_sectors(sym, indices, charge):
    from .. import gen

    out = []
    duals = [ix["dual"] for ix in indices]
    for sector in itertools.product(*[[_tup(c) for c, _ in ix["cm"]] for ix in indices]):
        if gen.py_sector_charge(sym, sector, duals) == charge:
            out.append(list(sector))
    return out


def _jc(c):
    return list(c) if isinstance(c, tuple) else c


def rand_base(rng, sym, ndim, fermi=False, prefuse=False):
    from .. import gen

    pool = _pool(sym)
    small = [c for c in pool if c in (0, 1, (0, 0), (0, 1), (1, 0), (1, 1))]
    for _ in range(200):
        indices = []
        for _k in range(ndim):
            cs = sorted(rng.sample(small, 2))
            indices.append(dict(cm=[[_jc(c), rng.randint(1, 3 if ndim < 5 else 2)] for c in cs],
                                dual=rng.random() < 0.5))
        if len({ix["dual"] for ix in indices}) == 1:
            indices[rng.randrange(ndim)]["dual"] ^= True
        sector = tuple(_tup(rng.choice(ix["cm"])[0]) for ix in indices)
        charge = gen.py_sector_charge(sym, sector, [ix["dual"] for ix in indices])
        secs = _valid_sectors(sym, indices, charge)
        if len(secs) >= 3:
            break
    secs = [[_jc(c) for c in s] for s in secs]
    rng.shuffle(secs)
    depth = int(prefuse)  # 0: plain, 1: first index fused once, 2: fused twice
    nd = ndim - depth
    a, b = sorted(rng.sample(range(nd), 2))
    groups = [[a, b]] if rng.random() < 0.6 else [[b, a]]
    rest = [k for k in range(nd) if k not in (a, b)]
    if rest and rng.random() < 0.4:
        groups.append([rest[0]])
    if prefuse:
        # always fuse the fused index with something
        groups = [[0, 1]] if rng.random() < 0.5 else [[1, 0]]
        if nd > 2 and rng.random() < 0.5:
            groups.append([2])
        if nd > 2 and depth == 1 and rng.random() < 0.5:
            # ... or leave the pre-fused leg ALONE: a single-axis group in fuse, the only free leg of the
            # fused-mode contraction over the other two (its sub-index structure must come from this array)
            groups = [[1, 2] if rng.random() < 0.5 else [2, 1], [0]]
    return dict(
        sym=sym, indices=indices, charge=_jc(charge), sectors=secs, groups=groups,
        prefuse=[[0, 1]] if prefuse else None, prefuse2=[[0, 1]] if depth == 2 else None,
        sort_blocks=depth == 2, derive=None, seed=rng.randrange(10**6),
        fermi=fermi, tag="base",
    )


def family_of(rng, base):
    """the base and its one-attribute neighbours: list of descriptions with a `tag`"""
    from .. import gen

    sym = base["sym"]
    ndim = len(base["indices"])
    fam = [base]

    def variant(tag):
        d = copy.deepcopy(base)
        d["tag"] = tag
        fam.append(d)
        return d

    variant("dup")
    # one dualness
    for k in rng.sample(range(ndim), min(2, ndim)):
        d = variant(f"dual@{k}")
        d["indices"][k]["dual"] ^= True
    # one block size
    k = rng.randrange(ndim)
    d = variant(f"size@{k}")
    d["indices"][k]["cm"][rng.randrange(len(d["indices"][k]["cm"]))][1] += 1
    # one charge label
    k = rng.randrange(ndim)
    have = [_tup(c) for c, _ in base["indices"][k]["cm"]]
    spare = [c for c in _pool(sym) if c not in have]
    if spare:
        d = variant(f"label@{k}")
        j = rng.randrange(len(have))
        old, new = have[j], rng.choice(spare)
        d["indices"][k]["cm"][j][0] = _jc(new)
        d["indices"][k]["cm"].sort(key=lambda p: _tup(p[0]))
        for s in d["sectors"]:
            if _tup(s[k]) == old:
                s[k] = _jc(new)
    if sym in ("U1", "U1U1"):
        # two members that differ from each other in ONE charge label, -1 in one and -2 in the other (labels
        # whose builtin hashes coincide in CPython; any key must still tell them apart)
        k = rng.randrange(ndim)
        have = [_tup(c) for c, _ in base["indices"][k]["cm"]]
        j = rng.randrange(len(have))
        old = have[j]
        for lab in (-1, -2):
            new = lab if sym == "U1" else (lab, 0)
            if new in have:
                continue
            d = variant(f"label{lab}@{k}")
            d["indices"][k]["cm"][j][0] = _jc(new)
            d["indices"][k]["cm"].sort(key=lambda p: _tup(p[0]))
            for s_ in d["sectors"]:
                if _tup(s_[k]) == old:
                    s_[k] = _jc(new)
    # one missing sector, twice (same number of sectors, different sets)
    i1, i2 = rng.sample(range(len(base["sectors"])), 2)
    for i in (i1, i2):
        d = variant(f"missing#{i}")
        del d["sectors"][i]
    # same sectors, other dict order
    d = variant("order")
    d["sectors"] = d["sectors"][1:] + d["sectors"][:1]
    # symmetry
    alt = {"Z2": ["U1", "Z4"], "U1": ["Z2", "Z4"], "Z4": ["U1", "Z2"], "Z2Z2": ["U1U1"], "U1U1": ["Z2Z2"]}[sym]
    d = variant("sym")
    d["sym"] = rng.choice(alt)
    d["static"] = d["sym"] != "Z4"
    # groups
    d = variant("groups")
    d["groups"] = [d["groups"][0][::-1]] + d["groups"][1:]
    if base["prefuse"]:
        # sub-index structure under an identical fused table
        d = variant("subdual@0")
        d["indices"][0]["dual"] ^= True
        d = variant("subdual@1")
        d["indices"][1]["dual"] ^= True
        d = variant("subswap")
        c0, c1 = d["indices"][0]["cm"], d["indices"][1]["cm"]
        for q in range(min(len(c0), len(c1))):  # swap the sizes position by position (labels stay)
            c0[q][1], c1[q][1] = c1[q][1], c0[q][1]
        # order of the (innermost) sub-indices: the two legs swapped, sectors accordingly
        d = variant("suborder")
        d["indices"][0], d["indices"][1] = d["indices"][1], d["indices"][0]
        for s_ in d["sectors"]:
            s_[0], s_[1] = s_[1], s_[0]
        # same fused table, same sub-indices, different extents: the two sub-sectors (A0,B0) and
        # (A1,B1) have the same size p*q and (when the symmetry allows) the same fused charge;
        # one member stores only the first, the other only the second
        i0, i1 = base["indices"][0], base["indices"][1]
        (A0, _), (A1, _) = i0["cm"]
        (B0, _), (B1, _) = i1["cm"]
        dl = [i0["dual"], i1["dual"]]
        gd = dl[0]
        fc = [gen.py_combine(sym, [gen.py_sign(sym, _tup(a), gd != dl[0]), gen.py_sign(sym, _tup(b), gd != dl[1])])
              for a, b in ((A0, B0), (A1, B1))]
        keepA = [s for s in base["sectors"] if (_tup(s[0]), _tup(s[1])) != (_tup(A1), _tup(B1))]
        keepB = [s for s in base["sectors"] if (_tup(s[0]), _tup(s[1])) != (_tup(A0), _tup(B0))]
        if fc[0] == fc[1] and keepA and keepB and keepA != keepB:
            p_, q_ = 2, 3
            for tag, keep in (("subextent#A", keepA), ("subextent#B", keepB)):
                d = variant(tag)
                d["indices"][0]["cm"] = [[A0, p_], [A1, q_]]
                d["indices"][1]["cm"] = [[B0, q_], [B1, p_]]
                d["sectors"] = copy.deepcopy(keep)
                d["sort_blocks"] = True  # same sector order in both, so that only the extents differ
    else:
        d = variant("derive-conj")
        d["derive"] = "conj"
        d = variant("derive-conj2")
        d["derive"] = "conj2"
    return fam


def twin_family(rng, pair, fermi):
    """generic-class twins: `sr.AbelianArray` / `sr.FermionicArray` built with different
    symmetries (given as a name and as an object) on identical index tables, dualnesses, stored
    sector lists and groups.  The stored sectors are valid under every symmetry of the pool
    (charges are conserved without wrap-around), so some sectors that are valid only modulo 2 or 4
    are simply absent; the fused group mixes directions, so the fused charges differ between the
    symmetries (Z2: 1, Z4: 3, U1: -1 for a sub-sector (0, 1))."""
    from .. import gen

    syms = ["Z2", "Z4", "U1"] if pair == "scalar" else ["Z2Z2", "U1U1"]
    strict = "U1" if pair == "scalar" else "U1U1"
    labels = [0, 1] if pair == "scalar" else [(0, 0), (0, 1), (1, 0), (1, 1)]
    for _ in range(500):
        ndim = 3
        indices = []
        for _k in range(ndim):
            cs = sorted(rng.sample(labels, 2)) if pair != "scalar" else [0, 1]
            indices.append(dict(cm=[[_jc(c), rng.randint(1, 3)] for c in cs], dual=rng.random() < 0.5))
        a, b = rng.sample(range(ndim), 2)
        indices[b]["dual"] = not indices[a]["dual"]  # the fused pair mixes directions
        sector = tuple(_tup(rng.choice(ix["cm"])[0]) for ix in indices)
        charge = gen.py_sector_charge(strict, sector, [ix["dual"] for ix in indices])
        if pair == "scalar" and charge not in (0, 1):
            continue
        if pair != "scalar" and not all(c in (0, 1) for c in charge):
            continue
        secs = _valid_sectors(strict, indices, charge)
        if len(secs) >= 3:
            break
    else:
        raise RuntimeError("no twin base found")
    secs = [[_jc(c) for c in s_] for s_ in secs]
    rng.shuffle(secs)
    base = dict(sym=syms[0], indices=indices, charge=_jc(charge), sectors=secs, groups=[[a, b]],
                prefuse=None, prefuse2=None, sort_blocks=False, derive=None, seed=rng.randrange(10**6),
                fermi=fermi, static=False, symobj=False, tag="base")
    fam = [base]

    def variant(tag, **kw):
        d = copy.deepcopy(base)
        d["tag"] = tag
        d.update(kw)
        fam.append(d)
        return d

    variant("dup")
    for sy in syms[1:]:
        variant(f"sym:{sy}", sym=sy)
    for sy in syms:
        variant(f"symobj:{sy}", sym=sy, symobj=True)
    d = variant("groups")
    d["groups"] = [[b, a]]
    for sy in syms[1:]:
        d = variant(f"groups+sym:{sy}", sym=sy)
        d["groups"] = [[b, a]]
    # (the schedule streams want these two tags in every family)
    d = variant("size@0")
    d["indices"][0]["cm"][0][1] += 1
    d = variant("missing#0")
    del d["sectors"][0]
    d = variant(f"missing#0+sym:{syms[-1]}", sym=syms[-1])
    del d["sectors"][0]
    return fam


def make_families(rng, tier):
    fams = []
    # last entry: 0 plain, 1 first index fused once, 2 fused twice (then the sub-index variants
    # differ only at the second level: first-level tables and extents agree)
    plan = [("Z2", 3, False, False), ("U1", 3, False, False), ("Z2", 4, False, True), ("Z2", 5, False, 2)]
    if tier == "thorough":
        plan += [("Z2Z2", 3, False, False), ("U1U1", 3, False, False), ("Z4", 3, False, False),
                 ("Z2", 3, True, False), ("U1", 4, True, True), ("Z2Z2", 4, False, True),
                 ("U1", 5, False, 2), ("Z2", 5, True, 2)]
    else:
        plan.append(rng.choice([("Z2Z2", 3, False, False), ("Z2", 3, True, False), ("U1", 4, False, True)]))
    for sym, ndim, fermi, prefuse in plan:
        fams.append(family_of(rng, rand_base(rng, sym, ndim, fermi, prefuse)))
    # generic-class twins (symmetry is an argument of the constructor, not a property of the class)
    twins = [("scalar", False)]
    if tier == "thorough":
        twins += [("scalar", True), ("pair", False), ("pair", True)]
    else:
        twins.append(rng.choice([("scalar", True), ("pair", False)]))
    for pair, fermi in twins:
        fams.append(twin_family(rng, pair, fermi))
    return fams


# =============================================================================== observations


def _canon(obj):
    """canonical, hashable, order-free form of plans / helper results"""
    import numpy as np
    from .. import ser

    if type(obj).__name__ == "BlockIndex":
        return ("ix", ser.canon_index(ser.enc_index(obj)))
    if isinstance(obj, dict):
        return ("dict", tuple(sorted(((_canon(k), _canon(v)) for k, v in obj.items()), key=repr)))
    if isinstance(obj, (list, tuple)):
        return ("seq", tuple(_canon(o) for o in obj))
    if isinstance(obj, (bool, np.bool_)):
        return int(obj)
    if isinstance(obj, (int, np.integer)):
        return int(obj)
    if obj is None or isinstance(obj, (str, float)):
        return obj
    if hasattr(obj, "indices") and hasattr(obj, "blocks"):
        return ("arr", _canon_array_fast(obj))
    return ("repr", type(obj).__name__, repr(obj))


def _canon_array_fast(x):
    """value view of an array (same content as ser.canon_array(drop_zero=False)): pending signs
    multiplied in, blocks sorted by sector, nested index tables; block data by their bytes —
    all data here are small integers in floating point, so equal values have equal bytes once
    -0.0 is normalised."""
    import numpy as np
    from .. import ser

    fermi = bool(getattr(x, "fermionic", False))
    phases = x.phases if fermi else {}
    blocks = []
    for sec in sorted(x.blocks):
        b = np.asarray(x.blocks[sec])
        b = np.ascontiguousarray(b * phases.get(sec, 1) + 0.0)
        blocks.append((sec, b.shape, str(b.dtype), hashlib.sha1(b.tobytes()).hexdigest()))
    return (
        ser.sym_name(x.symmetry), fermi,
        tuple(ser.canon_index(ser.enc_index(ix)) for ix in x.indices),
        x.charge, tuple(blocks),
        tuple((int(o.label), bool(o.dual)) for o in x.oddpos) if fermi else None,
    )


def _digest(obj):
    return hashlib.sha1(repr(obj).encode()).hexdigest()[:20]


def run_op(x, xc, groups, op):
    """one public operation whose plan goes through the cache; returns a digest or ('raise', kind)"""
    import symmray as sr
    from .. import ser

    try:
        if op == "fuse":
            r = x.fuse(*groups)
        elif op == "fuse_unfuse":
            r = x.fuse(*groups).unfuse_all()
        elif op == "unfuse_deep":
            # fuse, then undo every level of fusing down to the innermost legs
            r = x.fuse(*groups)
            for _ in range(8):
                if not any(ix.subinfo is not None for ix in r.indices):
                    break
                r = r.unfuse_all()
        elif op == "tdot":
            g = groups[0]
            r = sr.tensordot(x, xc, axes=(g, g), mode="fused", preserve_array=True)
        elif op == "reshape":
            g = groups[0]
            if list(g) != list(range(g[0], g[0] + len(g))):
                return "n/a"
            shape = x.shape
            merged = 1
            for ax in g:
                merged *= shape[ax]
            r = x.reshape(shape[: g[0]] + (merged,) + shape[g[0] + len(g):])
        else:
            raise ValueError(op)
    except Exception as e:  # noqa
        return "raise:" + ser.exc_kind(e) + ":" + type(e).__name__
    return _digest(_canon(r))


def plan_digest(plan):
    return _digest(_canon(plan))


# =============================================================================== scheduling dict


class _Controller:
    """serialises the dict operations of registered threads in a prescribed order"""

    def __init__(self, n, timeout=20.0):
        self.cv = threading.Condition()
        self.state = [("start",)] * n
        self.go = [False] * n
        self.free = False
        self.idx = {}
        self.timeout = timeout
        self.local = threading.local()

    # ---- called from worker threads
    def gate(self, op):
        i = self.idx.get(threading.get_ident())
        if i is None or self.free:
            return
        with self.cv:
            self.state[i] = ("wait", op)
            self.cv.notify_all()
            t0 = time.time()
            while not self.go[i] and not self.free:
                self.cv.wait(0.5)
                if time.time() - t0 > self.timeout:
                    raise RuntimeError("scheduling gate timed out")
            self.go[i] = False
            self.state[i] = ("run",)

    def finished(self, i):
        with self.cv:
            self.state[i] = ("fin",)
            self.cv.notify_all()

    # ---- called from the controlling thread
    def wait_quiet(self, i):
        with self.cv:
            t0 = time.time()
            while self.state[i][0] not in ("wait", "fin"):
                self.cv.wait(0.5)
                if time.time() - t0 > self.timeout:
                    raise RuntimeError("thread did not reach a gate")

    def step(self, i):
        if i >= len(self.state):
            return "idle"
        with self.cv:
            st = self.state[i]
            if st[0] == "fin":
                return "idle"
            op = st[1]
            self.go[i] = True
            self.state[i] = ("run",)
            self.cv.notify_all()
        self.wait_quiet(i)
        return op

    def release_all(self):
        with self.cv:
            self.free = True
            self.cv.notify_all()


class SchedDict(OrderedDict):
    """`abelian_core._fuseinfos` replacement: every outermost dict operation of a registered
    thread waits at the controller's gate (OrderedDict.popitem of a subclass calls
    __getitem__/__delitem__ internally, hence the depth counter)."""

    ctl = None

    def _enter(self, op):
        ctl = SchedDict.ctl
        if ctl is None:
            return False
        loc = ctl.local
        if getattr(loc, "depth", 0) > 0:
            return False
        loc.depth = 1
        try:
            ctl.gate(op)
        except BaseException:
            loc.depth = 0
            raise
        return True

    def _leave(self, entered):
        if entered:
            SchedDict.ctl.local.depth = 0

    def __getitem__(self, k):
        e = self._enter("lookup")
        try:
            return super().__getitem__(k)
        finally:
            self._leave(e)

    def move_to_end(self, k, last=True):
        e = self._enter("moveToEnd")
        try:
            return super().move_to_end(k, last)
        finally:
            self._leave(e)

    def __setitem__(self, k, v):
        e = self._enter("insert")
        try:
            return super().__setitem__(k, v)
        finally:
            self._leave(e)

    def __len__(self):
        e = self._enter("lenTest")
        try:
            return super().__len__()
        finally:
            self._leave(e)

    def popitem(self, last=True):
        e = self._enter("pop")
        try:
            return super().popitem(last)
        finally:
            self._leave(e)


def replay_schedule(ac, members, key2id, sch):
    """run `sch` = {progs:[[member…]…], sched:[thread…], init:[member…]} on the real
    cached_fuse_block_info; returns ops log, per-thread outcomes and the final cache"""
    from .. import ser

    saved = ac._fuseinfos
    d = SchedDict()
    ac._fuseinfos = d
    n = len(sch["progs"])
    ctl = _Controller(n)
    outs = [[] for _ in range(n)]
    raised = [None] * n
    try:
        for i in sch.get("init", []):
            x, _, g = members[i]
            ac.cached_fuse_block_info(x, g)
        SchedDict.ctl = ctl

        def body(i):
            ctl.idx[threading.get_ident()] = i
            try:
                for mi in sch["progs"][i]:
                    x, _, g = members[mi]
                    plan = ac.cached_fuse_block_info(x, g)
                    outs[i].append((mi, plan_digest(plan)))
            except Exception as e:  # noqa
                tb = traceback.extract_tb(e.__traceback__)
                raised[i] = dict(kind=ser.exc_kind(e), type=type(e).__name__, msg=str(e)[:80],
                                 where=tb[-1].name if tb else "")
            finally:
                ctl.local.depth = 0
                ctl.finished(i)

        threads = [threading.Thread(target=body, args=(i,), daemon=True) for i in range(n)]
        for t in threads:
            t.start()
        for i in range(n):
            ctl.wait_quiet(i)
        ops = [ctl.step(i) for i in sch["sched"]]
        incomplete = [i for i in range(n) if ctl.state[i][0] != "fin"]
        # observation at the end of the schedule (unfinished threads are parked at a gate)
        outs_end = [[mi for mi, _ in o] for o in outs]
        cache_end = [key2id.get(k, -1) for k in OrderedDict.keys(d)]
        ctl.release_all()
        for t in threads:
            t.join(30)
        SchedDict.ctl = None
        cache = [key2id.get(k, -1) for k in OrderedDict.keys(d)]
        return dict(ops=ops, outs=outs, raised=raised, cache=cache, incomplete=incomplete,
                    outs_end=outs_end, cache_end=cache_end)
    finally:
        SchedDict.ctl = None
        ctl.release_all()
        ac._fuseinfos = saved


# =============================================================================== worker


def _helper_snapshot():
    """arguments and fresh values of the lru_cache'd helpers' current entries cannot be listed
    (no introspection), so the helpers are probed on a fixed argument family instead"""
    from symmray import abelian_core as ac
    from symmray import linalg, symmetries

    probes = []
    for groups in [((0, 1),), ((1, 0),), ((0, 1), (2,)), ((0, 2), (1,)), ((1, 2),)]:
        for duals in itertools.product((False, True), repeat=3):
            probes.append((ac.calc_fuse_group_info, (groups, duals)))
    for par in itertools.product((0, 1), repeat=3):
        for perm in itertools.permutations(range(3)):
            probes.append((symmetries.calc_phase_permutation, (par, perm)))
        probes.append((symmetries.calc_phase_permutation, (par, None)))
    for sizes in [(1, 2, 3), (3, 2, 1), (2, 2), (4, 1), (1, 4)]:
        for mb in (-1, 1, 2, 3, 5):
            probes.append((linalg.calc_sub_max_bonds, (sizes, mb)))
    for shape, new in [((2, 3, 4), (6, 4)), ((2, 3, 4), (2, 12)), ((2, 3, 4), (24,)), ((6, 4), (6, 4)),
                       ((2, 3, 4), (2, 3, 4, 1)), ((2, 1, 3), (2, 3))]:
        probes.append((ac.calc_reshape_args, (shape, new, tuple(None for _ in shape))))
    return probes


def check_helpers(rng, rounds):
    """memoised helpers == un-memoised functions, for shuffled orders and after cache_clear;
    returns list of mismatches"""
    probes = _helper_snapshot()
    bad = []
    n = 0
    for r in range(rounds):
        order = list(range(len(probes)))
        rng.shuffle(order)
        if r % 2 == 0:
            for f in {p[0] for p in probes}:
                f.cache_clear()
        for i in order:
            f, args = probes[i]
            try:
                want = ("ok", _canon(f.__wrapped__(*args)))
            except Exception as e:  # noqa
                want = ("raise", type(e).__name__)
            try:
                got = ("ok", _canon(f(*args)))
            except Exception as e:  # noqa
                got = ("raise", type(e).__name__)
            n += 1
            if want != got:
                bad.append(dict(fn=f.__name__, args=repr(args), want=repr(want)[:300], got=repr(got)[:300]))
    return n, bad


# =============================================================================== (g) line-level pre-emption


def _pkgdir():
    import symmray

    return os.path.dirname(os.path.abspath(symmray.__file__)) + os.sep


def _pre_call(members, spec):
    """one public operation: array of member `arr`, axes groups of member `groups_of`"""
    x, xc, _ = members[spec["arr"]]
    return run_op(x, xc, members[spec["groups_of"]][2], spec["op"])


def _trace_lines(fn, pkg):
    """the line events of `fn()` inside the symmray package:
    (file, line, function, inside cached_fuse_block_info or a callee, in its own frame)"""
    lines = []

    def tracer(frame, event, arg):
        code = frame.f_code
        if not code.co_filename.startswith(pkg):
            return None
        if event == "line":
            own = code.co_name == "cached_fuse_block_info"
            inside = own
            f = frame.f_back
            while f is not None and not inside:
                inside = f.f_code.co_name == "cached_fuse_block_info"
                f = f.f_back
            lines.append((os.path.basename(code.co_filename), frame.f_lineno, code.co_name, inside, own))
        return tracer

    sys.settrace(tracer)
    try:
        fn()
    finally:
        sys.settrace(None)
    return lines


def _preempt_trial(run_a, run_b, k, b_times, pkg, timeout=30.0):
    """thread A runs `run_a` under a line tracer and is parked once, before its k-th line event
    inside symmray; thread B then runs `run_b` completely (`b_times` times); A goes on."""
    out = {}
    parked = threading.Event()
    resume = threading.Event()

    def thread_a():
        cnt = [0]

        def tracer(frame, event, arg):
            code = frame.f_code
            if not code.co_filename.startswith(pkg):
                return None
            if event == "line":
                if cnt[0] == k:
                    out["at"] = f"{os.path.basename(code.co_filename)}:{frame.f_lineno} {code.co_name}"
                    parked.set()
                    resume.wait(timeout)
                cnt[0] += 1
            return tracer

        sys.settrace(tracer)
        try:
            out["A"] = run_a()
        except BaseException as e:  # noqa
            out["A"] = f"raise:other:{type(e).__name__}"
        finally:
            sys.settrace(None)
            out["nlines"] = cnt[0]
            parked.set()

    def thread_b():
        parked.wait(timeout)
        try:
            out["B"] = [run_b() for _ in range(b_times)]
        except BaseException as e:  # noqa
            out["B"] = [f"raise:other:{type(e).__name__}"]
        finally:
            resume.set()

    ta = threading.Thread(target=thread_a, daemon=True)
    tb = threading.Thread(target=thread_b, daemon=True)
    ta.start()
    tb.start()
    ta.join(2 * timeout)
    tb.join(2 * timeout)
    if ta.is_alive() or tb.is_alive():
        raise RuntimeError("pre-emption trial did not terminate")
    return out


def preempt_explore(ac, members, cfg):
    """(g) for every scenario = (operation A, operation B, sequential history before, how often B):
    park A before each selected line event in turn while B runs completely; afterwards A's result,
    B's results and a sequential B, A, B must all equal the sequential references."""
    if not cfg:
        return dict(trials=0, findings=[], scenarios=0, lines=0)
    pkg = _pkgdir()
    used = {sp["arr"] for sc in cfg["scenarios"] for sp in (sc["A"], sc["B"])}
    neutral = cfg.get("neutral")
    if neutral is None:
        neutral = next((i for i in range(len(members) - 1, -1, -1) if i not in used), 0)
    ref = {}

    def call(spec):
        return _pre_call(members, spec)

    def key(spec):
        return (spec["arr"], spec["groups_of"], spec["op"])

    def prepare(sc):
        # a fixed state: an unrelated call, empty cache, then the sequential history
        x, xc, g = members[neutral]
        run_op(x, xc, g, "fuse")
        ac._fuseinfos.clear()
        for h in sc["history"]:
            call(sc[h])

    for sc in cfg["scenarios"]:
        for sp in (sc["A"], sc["B"]):
            if key(sp) not in ref:
                ac._fuseinfos.clear()
                ref[key(sp)] = call(sp)
    findings = []
    trials = 0
    nlines_total = 0
    nscen = 0
    t0 = time.time()
    explicit = cfg.get("explicit")
    for si, sc in enumerate(cfg["scenarios"]):
        wa, wb = ref[key(sc["A"])], ref[key(sc["B"])]
        if "n/a" in (wa, wb):
            continue
        nscen += 1
        if explicit is not None:
            ks = [k for s2, k in explicit if s2 == si]
        else:
            prepare(sc)
            _trace_lines(lambda: call(sc["A"]), pkg)  # warms whatever is memoised per process
            prepare(sc)
            lines = _trace_lines(lambda: call(sc["A"]), pkg)
            nlines_total += len(lines)
            if cfg.get("all_lines"):
                ks = list(range(len(lines)))
            else:
                own = [k for k, ln in enumerate(lines) if ln[4]]
                callee = [k for k, ln in enumerate(lines) if ln[3] and not ln[4]]
                outside = [k for k, ln in enumerate(lines) if not ln[3]]

                def strided(v, n):
                    if len(v) <= n:
                        return v
                    return [v[(j * len(v)) // n] for j in range(n)]

                ks = sorted(set(own + strided(callee, sc.get("callee_cap", cfg["callee_cap"]))
                                + strided(outside, cfg["outside_cap"])))
        for k in ks:
            if cfg.get("budget_s") and time.time() - t0 > cfg["budget_s"]:
                break
            prepare(sc)
            out = _preempt_trial(lambda: call(sc["A"]), lambda: call(sc["B"]), k, sc["b_times"], pkg)
            trials += 1
            bad = []
            if out.get("A") != wa:
                bad.append(("threaded A", wa, out.get("A")))
            for n, gb in enumerate(out.get("B", [])):
                if gb != wb:
                    bad.append((f"threaded B#{n}", wb, gb))
            for n, h in enumerate(("B", "A", "B")):
                got = call(sc[h])
                want = wb if h == "B" else wa
                if got != want:
                    bad.append((f"later sequential {h}#{n}", want, got))
            if bad and len(findings) < 8:
                findings.append(dict(scenario=sc, scenario_index=si, k=k, at=out.get("at", "(not reached)"),
                                     mismatches=[dict(which=w, want=a, got=b) for w, a, b in bad]))
    ac._fuseinfos.clear()
    return dict(trials=trials, findings=findings, scenarios=nscen, lines=nlines_total)


def make_preempt(fam, tier):
    """scenarios over one family (indices into it)"""
    tags = [d["tag"] for d in fam]

    def first(prefix):
        return next((i for i, t in enumerate(tags) if t.startswith(prefix)), None)

    gv, dv, sv, mv = first("groups"), first("dual@"), first("size@"), first("missing#")
    sc = []

    def add(name, a, b, histories, b_times=1, callee_cap=None):
        if None in (a[0], a[1], b[0], b[1]):
            return
        for h in histories:
            d = dict(name=name, A=dict(arr=a[0], groups_of=a[1], op=a[2]), B=dict(arr=b[0], groups_of=b[1], op=b[2]),
                     history=h, b_times=b_times)
            if callee_cap:
                d["callee_cap"] = callee_cap
            sc.append(d)

    both = [[], ["B", "A"], ["A", "B"]]
    add("fuse: one shared array, two groupings", (0, 0, "fuse"), (0, gv, "fuse"), both)
    add("fuse: one shared array, two groupings, B twice", (0, 0, "fuse"), (0, gv, "fuse"), [["B", "A"], ["A", "B"]], 2)
    add("fuse: equal key, two objects", (0, 0, "fuse"), (1, 1, "fuse"), [[], ["A"]], 1, 60)
    add("fuse: the same array and grouping in both threads", (0, 0, "fuse"), (0, 0, "fuse"), [[]], 1, 60)
    add("fuse: other block size, same grouping and directions", (0, 0, "fuse"), (sv, sv, "fuse"), both, 1, 60)
    add("fuse: other dualness", (0, 0, "fuse"), (dv, dv, "fuse"), [[], ["B", "A"]])
    add("tensordot(fused): one sector missing", (0, 0, "tdot"), (mv, mv, "tdot"), [[], ["A", "B"]])
    add("reshape: other dualness", (0, 0, "reshape"), (dv, dv, "reshape"), [[], ["A", "B"]])
    add("fuse against tensordot(fused) of the same array", (0, 0, "fuse"), (0, 0, "tdot"), [[], ["B", "A"]])
    # the call made before every schedule (fixes whatever "last call" state there may be): a member
    # whose key differs from those of all scenario members
    neutral = next((i for pre in ("sym", "order", "label@") for i in [first(pre)] if i is not None), None)
    if tier == "thorough":
        return dict(scenarios=sc, neutral=neutral, all_lines=True, callee_cap=10**9, outside_cap=10**9, budget_s=400)
    return dict(scenarios=sc, neutral=neutral, all_lines=False, callee_cap=24, outside_cap=6, budget_s=25)


def worker_main():
    jobpath, outpath = sys.argv[sys.argv.index("--worker") + 1: sys.argv.index("--worker") + 3]
    with open(jobpath) as fh:
        job = json.load(fh)
    out = dict(ok=True)
    try:
        out.update(_worker(job))
    except Exception:  # noqa
        out = dict(ok=False, error=traceback.format_exc()[-3000:])
    with open(outpath + ".tmp", "w") as fh:
        json.dump(out, fh)
    os.replace(outpath + ".tmp", outpath)


def _worker(job):
    import numpy as np  # noqa
    import symmray as sr  # noqa
    from symmray import abelian_core as ac

    res = dict(maxsize_seen=ac._fuseinfo_cache_maxsize, maxsectors_seen=ac._fuseinfo_cache_maxsectors)
    fam = job["family"]
    members = []
    for d in fam:
        x, groups = build_member(d)
        members.append((x, x.conj(), groups))
    F = len(members)

    # -- identification of real keys (cold direct call each; memoises the index hash keys).
    #    Direct calls, because public operations may transform the array first (the fermionic
    #    fuse transposes the grouped axes together and then asks for another plan).
    keys = []
    want = {}
    first_digest = {}
    T = dict(t0=time.time())
    inserted = []

    class _RecDict(OrderedDict):  # sees the inserted key even when it is evicted at once (maxsize < 1)
        def __setitem__(self, k, v):
            inserted.append((k, v))
            super().__setitem__(k, v)

    plain = ac._fuseinfos
    ac._fuseinfos = _RecDict()
    try:
        for i, (x, _, g) in enumerate(members):
            want[i] = plan_digest(ac.calc_fuse_block_info(x, g))
            ac._fuseinfos.clear()
            del inserted[:]
            ac.cached_fuse_block_info(x, g)
            keys.append([k for k, _ in inserted])
            for k, plan in inserted:
                first_digest[k] = plan_digest(plan)
    finally:
        plain.clear()
        ac._fuseinfos = plain
    res["keys"] = keys
    res["plan_want"] = want
    key2ids = {}
    for i, ks in enumerate(keys):
        if len(ks) == 1:
            key2ids.setdefault(ks[0], []).append(i)
    key2id = {k: v[0] for k, v in key2ids.items()}

    # -- exhaustive orderings of direct cached calls: the plan returned must be the plan of the
    #    argument (direct oracle), and the cache contents after every call are recorded
    traces = []
    wrong_plans = []
    for seq in job["seqs"]:
        ac._fuseinfos.clear()
        tr = []
        for pos, i in enumerate(seq):
            x, _, g = members[i]
            if plan_digest(ac.cached_fuse_block_info(x, g)) != want[i] and len(wrong_plans) < 3:
                wrong_plans.append(dict(seq=seq, pos=pos, member=i))
            tr.append([key2id.get(k, -1) for k in ac._fuseinfos])
        traces.append(tr)
    res["traces"] = traces
    res["wrong_plans"] = wrong_plans
    T["direct"] = time.time()

    # -- reference-free observation: digest per (member, op) must not depend on the history
    seen = {}
    inconsistent = []

    def obs(seq, pos, i, op):
        x, xc, g = members[i]
        dg = run_op(x, xc, g, op)
        k = f"{i}:{op}"
        if k not in seen:
            seen[k] = dg
        elif seen[k] != dg and len(inconsistent) < 5:
            inconsistent.append(dict(seq=seq, pos=pos, member=i, op=op, first=seen[k], got=dg))
        return dg

    # -- the same orderings through the public `fuse` (cold start each), then mixed histories
    #    of fuse / tensordot(fused) / reshape / fuse+unfuse on a cache that is never cleared
    for seq in job["seqs"]:
        ac._fuseinfos.clear()
        for pos, i in enumerate(seq):
            obs(seq, pos, i, "fuse")
    for seq in job["mixed"]:
        for pos, (i, op) in enumerate(seq):
            obs(seq, pos, i, op)
    res["digests"] = seen
    res["inconsistent"] = inconsistent
    T["ops"] = time.time()

    # -- plans sitting in the cache must still be what they were when first computed
    stale = []
    for k, plan in list(ac._fuseinfos.items()):
        if k in first_digest and plan_digest(plan) != first_digest[k]:
            stale.append(key2id.get(k, -1))
    res["stale_plans"] = stale

    # -- forced schedules
    sched_out = []
    if ac._fuseinfo_cache_maxsize != 0:
        for sch in job["schedules"]:
            sched_out.append(replay_schedule(ac, members, key2id, sch))
    res["schedules"] = sched_out
    T["sched"] = time.time()

    # -- line-level pre-emption exploration
    res["preempt"] = preempt_explore(ac, members, job.get("preempt")) if ac._fuseinfo_cache_maxsize != 0 else \
        dict(trials=0, findings=[], scenarios=0, lines=0)
    T["preempt"] = time.time()

    # -- thread stress
    res["stress"] = stress(ac, members, job["stress"], seen)
    T["stress"] = time.time()

    # -- helpers
    n, bad = check_helpers(random.Random(job["seed"]), job.get("helper_rounds", 2))
    res["helpers_n"] = n
    res["helpers_bad"] = bad[:5]
    T["helpers"] = time.time()
    ks = list(T)
    res["timing"] = {ks[i]: round(T[ks[i]] - T[ks[i - 1]], 2) for i in range(1, len(ks))}
    return res


def _linalg_obs(x, g, which):
    """qr / svd of the fused matrix: structure exactly, values as arrays (compared with tolerance)"""
    import numpy as np
    import symmray as sr
    from .. import ser

    rest = tuple(ax for ax in range(x.ndim) if ax not in g[0])
    if not rest:
        return None
    m = x.fuse(tuple(g[0]), rest)
    if which == "qr":
        parts = sr.linalg.qr(m)
    else:
        parts = sr.linalg.svd(m)
    struct = []
    vals = []
    for p in parts:
        if hasattr(p, "indices"):
            struct.append((tuple(ser.canon_index(ser.enc_index(ix)) for ix in p.indices), tuple(sorted(p.blocks))))
            vals.extend(np.asarray(p.blocks[s]).ravel() for s in sorted(p.blocks))
        else:
            struct.append(tuple(sorted(p.blocks)))
            vals.extend(np.asarray(p.blocks[s]).ravel() for s in sorted(p.blocks))
    return _digest(repr(struct)), (np.concatenate(vals) if vals else np.zeros(0))


def stress(ac, members, cfg, seq_digests):
    import numpy as np

    tasks = []
    for i in range(len(members)):
        for op in ("fuse", "tdot", "reshape", "fuse_unfuse", "qr", "svd"):
            tasks.append((i, op))

    def do(i, op):
        x, xc, g = members[i]
        if op in ("qr", "svd"):
            try:
                return _linalg_obs(x, g, op)
            except Exception as e:  # noqa
                return ("raise", type(e).__name__, str(e)[:60])
        return run_op(x, xc, g, op)

    ac._fuseinfos.clear()
    ref = {t: do(*t) for t in tasks}
    findings = []
    nthreads_done = []
    old = sys.getswitchinterval()
    sys.setswitchinterval(1e-6)
    try:
        for r, nt in enumerate(cfg["threads"]):
            ac._fuseinfos.clear()
            barrier = threading.Barrier(nt)
            results = [None] * nt

            def body(k):
                rng = random.Random(f"{cfg['seed']}:{r}:{k}")
                mine = list(tasks)
                rng.shuffle(mine)
                mine = mine[: cfg["per_thread"]]
                got = []
                barrier.wait()
                for t in mine:
                    try:
                        got.append((t, do(*t)))
                    except Exception as e:  # noqa
                        tb = traceback.extract_tb(e.__traceback__)
                        got.append((t, ("exc", type(e).__name__, str(e)[:80], tb[-1].name if tb else "")))
                results[k] = got

            ths = [threading.Thread(target=body, args=(k,)) for k in range(nt)]
            for t in ths:
                t.start()
            for t in ths:
                t.join()
            nthreads_done.append(nt)
            for k in range(nt):
                for t, got in results[k] or []:
                    want = ref[t]
                    same = _same_obs(want, got)
                    if not same and len(findings) < 5:
                        findings.append(dict(threads=nt, member=t[0], op=t[1], want=_short(want), got=_short(got)))
    finally:
        sys.setswitchinterval(old)
    return dict(rounds=nthreads_done, tasks=len(tasks), findings=findings)


def _short(o):
    return repr(o)[:200]


def _same_obs(a, b):
    import numpy as np

    if isinstance(a, tuple) and len(a) == 2 and hasattr(a[1], "shape"):
        if not (isinstance(b, tuple) and len(b) == 2 and hasattr(b[1], "shape")):
            return False
        return a[0] == b[0] and a[1].shape == b[1].shape and bool(np.allclose(a[1], b[1], rtol=1e-9, atol=1e-9))
    return a == b


# =============================================================================== parent


_TMP = []


def _tmpdir():
    import tempfile

    if not _TMP:
        _TMP.append(tempfile.mkdtemp(prefix="c15_"))
    return _TMP[0]


def _launch(job, maxsize, tag):
    from .. import core

    env = dict(os.environ)
    env["SYMMRAY_FUSE_CACHE_MAXSIZE"] = str(maxsize)
    env.pop("SYMMRAY_DEBUG", None)
    env["PYTHONPATH"] = os.pathsep.join(
        [str(core.REPO), str(core.VERIF)] + [p for p in env.get("PYTHONPATH", "").split(os.pathsep) if p])
    jobpath = os.path.join(_tmpdir(), f"job_{tag}.json")
    outpath = os.path.join(_tmpdir(), f"out_{tag}.json")
    with open(jobpath, "w") as fh:
        json.dump(job, fh)
    log = open(os.path.join(_tmpdir(), f"log_{tag}.txt"), "w")
    p = subprocess.Popen(
        [sys.executable, "-m", "harness.props.c15", "--worker", jobpath, outpath],
        stdin=subprocess.DEVNULL, stdout=log, stderr=subprocess.STDOUT, env=env, cwd=str(core.VERIF),
    )
    return p, outpath, log


def _collect(handle, timeout):
    p, outpath, log = handle
    try:
        p.wait(timeout=timeout)
    except subprocess.TimeoutExpired:
        p.kill()
        raise RuntimeError("C15 worker timed out")
    log.close()
    if not os.path.exists(outpath):
        with open(log.name) as fh:
            raise RuntimeError(f"C15 worker produced no result (exit {p.returncode}): {fh.read()[-1500:]}")
    with open(outpath) as fh:
        r = json.load(fh)
    if not r.get("ok"):
        raise RuntimeError("C15 worker failed: " + r.get("error", "?"))
    return r


def all_seqs(F, L):
    out = []
    for n in range(1, L + 1):
        out.extend(list(s) for s in itertools.product(range(F), repeat=n))
    return out


def make_seqs(rng, F, tier):
    if tier == "thorough":
        if F <= 9:
            return all_seqs(F, 4)
        sub = sorted(rng.sample(range(F), 8))
        return all_seqs(F, 3) + [[sub[i] for i in s] for s in itertools.product(range(8), repeat=4)]
    seqs = all_seqs(F, 2)
    sub = sorted(rng.sample(range(F), min(F, 6)))
    seqs += [[sub[i] for i in s] for s in itertools.product(range(len(sub)), repeat=3)]
    sub4 = sorted(rng.sample(range(F), min(F, 4)))
    seqs += [[sub4[i] for i in s] for s in itertools.product(range(len(sub4)), repeat=4)]
    return seqs


def make_mixed(rng, F, n):
    return [[(rng.randrange(F), rng.choice(OPS)) for _ in range(rng.randint(2, 4))] for _ in range(n)]


POLICIES = [
    dict(touch=True, popLast=False, guarded=True),  # the code
    dict(touch=False, popLast=False, guarded=True),
    dict(touch=True, popLast=True, guarded=True),
    dict(touch=False, popLast=True, guarded=True),
]
UNREPAIRED = dict(touch=True, popLast=False, guarded=False)
RACE = dict(progs=[[0], [1], [1]], sched=[0, 1, 2] * 4, init=[], name="race3")


def make_schedules(rng, tier):
    """schedules over abstract members 0,1,2 (three members with pairwise distinct keys: the base,
    one block size changed, one sector missing) and 3 (a rebuilt copy of the base: equal key,
    different objects)"""
    out = [dict(RACE)]
    out.append(dict(progs=[[1], [1], [1]], sched=[0, 1, 2] * 4, init=[0], name="race3-warm"))
    out.append(dict(progs=[[0], [1], [2], [2]], sched=[0, 1, 2, 3] * 4, init=[], name="race4"))
    out.append(dict(progs=[[0], [0]], sched=[0, 1] * 4, init=[], name="race2"))
    out.append(dict(progs=[[0], [1]], sched=[0, 0, 1, 0, 1, 1, 1, 0, 0], init=[0, 1], name="hit-then-evicted"))
    # every interleaving of two threads with four steps each
    for prog in ([[0], [1]], [[1], [1]]):
        for pos in itertools.combinations(range(8), 4):
            sched = [1] * 8
            for q in pos:
                sched[q] = 0
            out.append(dict(progs=prog, sched=sched, init=[0] if prog[0] == [1] else [], name="all2"))
    n = 150 if tier == "quick" else 1500
    for _ in range(n):
        nt = rng.randint(2, 4)
        progs = [[rng.randrange(4) for _ in range(rng.randint(1, 2))] for _ in range(nt)]
        steps = []
        for i, p in enumerate(progs):
            steps += [i] * (5 * len(p))
        rng.shuffle(steps)
        init = [rng.randrange(4) for _ in range(rng.randint(0, 2))]
        out.append(dict(progs=progs, sched=steps, init=init, name="random"))
    return out


def rand_mode_prog(rng, depth=0):
    modes = ["auto", "fused", "blockwise", None]
    n = rng.randint(1, 4)
    acts = []
    for _ in range(n):
        r = rng.random()
        if r < 0.25:
            acts.append("get")
        elif r < 0.45:
            acts.append({"set": rng.choice(modes)})
        elif r < 0.55 and depth > 0:
            acts.append("raise")
        elif r < 0.85 and depth < 3:
            acts.append({"with": rng.choice(modes), "body": rand_mode_prog(rng, depth + 1) + ["get"]})
        elif depth < 3:
            acts.append({"try": rand_mode_prog(rng, depth + 1)})
        else:
            acts.append("get")
    return acts


def rand_mode_prog2(rng, st=None, depth=0, in_deco=False):
    """mode programs with context managers that are *created before they are entered*
    ({"make": name, "mode": m} ... {"enter": name, "body": [...]}) and decorated functions
    ({"mkdeco": name, "mode": m, "body": [...]} ... {"call": name}).  No dead code: a block ends
    with its first action that may raise, so every `make` is executed before its `enter`.
    Returns (actions, may_raise)."""
    modes = ["auto", "fused", "blockwise", None]
    if st is None:
        st = dict(n=0, made=[], decos=[])
    acts = []
    for _ in range(rng.randint(2, 5)):
        r = rng.random()
        if r < 0.15:
            acts.append("get")
        elif r < 0.30:
            acts.append({"set": rng.choice(modes)})
        elif r < 0.50 and not in_deco:
            st["n"] += 1
            name = f"cm{st['n']}"
            acts.append({"make": name, "mode": rng.choice(modes)})
            st["made"].append(name)
        elif r < 0.58 and not in_deco and depth < 2:
            st["n"] += 1
            name = f"fn{st['n']}"
            body, mr = rand_mode_prog2(rng, st, depth + 1, True)
            deco = {"mkdeco": name, "mode": rng.choice(modes), "body": body + ([] if mr else ["get"])}
            if not mr and rng.random() < 0.5:
                # the decorated function re-enters itself (recursion) `rec` times; optionally the default is
                # changed between the levels
                deco["rec"] = rng.choice([1, 1, 2])
                if rng.random() < 0.5:
                    deco["recset"] = rng.choice(["auto", "fused", "blockwise"])
            acts.append(deco)
            st["decos"].append((name, mr))
        elif r < 0.75 and st["made"] and not in_deco and depth < 3:
            name = st["made"].pop(rng.randrange(len(st["made"])))
            body, mr = rand_mode_prog2(rng, st, depth + 1, in_deco)
            acts.append({"enter": name, "body": body + ([] if mr else ["get"])})
            if mr:
                return acts, True
        elif r < 0.82 and st["decos"] and not in_deco:
            name, mr = rng.choice(st["decos"])
            acts.append({"call": name})
            if mr:
                return acts, True
        elif r < 0.88 and depth < 3:
            body, mr = rand_mode_prog2(rng, st, depth + 1, in_deco)
            acts.append({"with": rng.choice(modes), "body": body + ([] if mr else ["get"])})
            if mr:
                return acts, True
        elif r < 0.94 and depth < 3:
            body, _ = rand_mode_prog2(rng, st, depth + 1, in_deco)
            acts.append({"try": body})
        elif depth > 0:
            acts.append("raise")
            return acts, True
        else:
            acts.append("get")
    return acts, False


def translate_mode_prog(prog, env=None):
    """the same program in the language of the Lean model: creating a context manager does
    nothing; entering it later is `with <its mode>`; calling a decorated function is
    `with <its mode>: <its body>` (the mode restored at exit is the mode at ENTRY)"""
    env = env if env is not None else dict(cms={}, decos={})
    out = []
    for a in prog:
        if not isinstance(a, dict):
            out.append(a)
        elif "make" in a:
            env["cms"][a["make"]] = a["mode"]
        elif "mkdeco" in a:
            env["decos"][a["mkdeco"]] = (a["mode"], translate_mode_prog(a["body"], env), a.get("rec", 0),
                                         a.get("recset"))
        elif "enter" in a:
            out.append({"with": env["cms"][a["enter"]], "body": translate_mode_prog(a["body"], env)})
        elif "call" in a:
            m, body, rec, recset = env["decos"][a["call"]]

            def nest(d):
                inner = list(body)
                if d > 0:
                    if recset is not None:
                        inner.append({"set": recset})
                    inner.append(nest(d - 1))
                return {"with": m, "body": inner}

            out.append(nest(rec))
        elif "with" in a:
            out.append({"with": a["with"], "body": translate_mode_prog(a["body"], env)})
        elif "try" in a:
            out.append({"try": translate_mode_prog(a["try"], env)})
        else:
            out.append(a)
    return out


class _Boom(Exception):
    pass


def run_mode_prog(init, prog):
    """interpreter of mode programs on the real symmray; also the direct oracle: every with-block
    must leave the mode it found, set(None) must change nothing"""
    import symmray as sr
    from symmray import abelian_core as ac

    trace = []
    oracle = []
    cms = {}
    decos = {}
    ac._DEFAULT_TENSORDOT_MODE = init

    def ex(act):
        if act == "get":
            trace.append(sr.get_default_tensordot_mode())
        elif act == "raise":
            raise _Boom()
        elif "set" in act:
            before = sr.get_default_tensordot_mode()
            sr.set_default_tensordot_mode(act["set"])
            after = sr.get_default_tensordot_mode()
            if act["set"] is None and after != before:
                oracle.append(f"set_default_tensordot_mode(None) changed {before!r} to {after!r}")
            if act["set"] is not None and after != act["set"]:
                oracle.append(f"set_default_tensordot_mode({act['set']!r}) left {after!r}")
        elif "make" in act:
            before = sr.get_default_tensordot_mode()
            cms[act["make"]] = (sr.default_tensordot_mode(act["mode"]), act["mode"])
            after = sr.get_default_tensordot_mode()
            if after != before:
                oracle.append(f"creating default_tensordot_mode({act['mode']!r}) changed the mode to {after!r}")
        elif "mkdeco" in act:
            body = act["body"]

            @sr.default_tensordot_mode(act["mode"])
            def fn(_depth=act.get("rec", 0), _body=body, _mode=act["mode"], _recset=act.get("recset")):
                inside = sr.get_default_tensordot_mode()
                if inside != _mode:
                    oracle.append(f"inside a function decorated with default_tensordot_mode({_mode!r}) "
                                  f"the mode is {inside!r}")
                for a in _body:
                    ex(a)
                if _depth > 0:
                    if _recset is not None:
                        ex({"set": _recset})
                    b2 = sr.get_default_tensordot_mode()
                    fn(_depth - 1)  # re-entry of the same decorated function while it is active
                    a2 = sr.get_default_tensordot_mode()
                    if a2 != b2:
                        oracle.append(f"re-entrant decorated call: mode {b2!r} at the inner entry, {a2!r} after "
                                      f"the inner exit")

            decos[act["mkdeco"]] = fn
        elif "enter" in act or "call" in act:
            before = sr.get_default_tensordot_mode()
            try:
                if "call" in act:
                    decos[act["call"]]()
                else:
                    cm, mode = cms.pop(act["enter"])
                    with cm:
                        inside = sr.get_default_tensordot_mode()
                        if inside != mode:
                            oracle.append(f"inside a pre-built default_tensordot_mode({mode!r}) the mode is {inside!r}")
                        for a in act["body"]:
                            ex(a)
            finally:
                after = sr.get_default_tensordot_mode()
                if after != before:
                    how = "decorated call" if "call" in act else "pre-built context manager (created earlier, entered now)"
                    oracle.append(f"{how}: mode {before!r} at entry, {after!r} after exit")
        elif "with" in act:
            before = sr.get_default_tensordot_mode()
            try:
                with sr.default_tensordot_mode(act["with"]):
                    inside = sr.get_default_tensordot_mode()
                    if inside != act["with"]:
                        oracle.append(f"inside default_tensordot_mode({act['with']!r}) the mode is {inside!r}")
                    for a in act["body"]:
                        ex(a)
            finally:
                after = sr.get_default_tensordot_mode()
                if after != before:
                    oracle.append(f"mode {before!r} before the with-block, {after!r} after it")
        elif "try" in act:
            try:
                for a in act["try"]:
                    ex(a)
            except _Boom:
                pass
        else:
            raise ValueError(act)

    raised = False
    try:
        for a in prog:
            ex(a)
    except _Boom:
        raised = True
    final = sr.get_default_tensordot_mode()
    ac._DEFAULT_TENSORDOT_MODE = "auto"
    return dict(trace=trace, final=final, raised=raised), oracle


def _has_raise_in_with(prog, inside=False):
    for a in prog:
        if a == "raise" and inside:
            return True
        if isinstance(a, dict):
            if ("with" in a or "enter" in a or "mkdeco" in a) and _has_raise_in_with(a["body"], True):
                return True
            if "try" in a and _has_raise_in_with(a["try"], inside):
                return True
    return False


# ------------------------------------------------------------------------------- stream (a)


def stream_keys(ctx, families):
    """key-collision pattern, in this process (default cache size)"""
    from symmray import abelian_core as ac
    from .. import ser

    if ac._fuseinfo_cache_maxsize == 0:
        ctx.notes.append("(a) skipped: the cache is disabled in the harness process")
        return {}
    cases = []
    built = {}
    for f, fam in enumerate(families):
        for i, d in enumerate(fam):
            x, g = build_member(d)
            built[(f, i)] = (x, g)
            cases.append(dict(id=f"k{f}.{i}", kind="keyOf", arr=ser.enc_array(x), groups=[list(a) for a in g]))
    model = ctx.model(cases)
    real = {}
    for (f, i), (x, g) in built.items():
        ac._fuseinfos.clear()
        ac.cached_fuse_block_info(x, g)
        ks = list(ac._fuseinfos)
        real[(f, i)] = ks[-1] if ks else None
        if len(ks) != 1:
            ctx.stat(f"a.call_made_{len(ks)}_cache_entries")
    ac._fuseinfos.clear()
    mkeys = {}
    for f, fam in enumerate(families):
        for i, d in enumerate(fam):
            if model is not None:
                r = model[f"k{f}.{i}"]
                if "key" not in r:
                    raise RuntimeError(f"driver keyOf: {r}")
                mkeys[(f, i)] = r["key"]
            else:
                x, g = built[(f, i)]
                mkeys[(f, i)] = repr((_canon(list(x.indices)), tuple(x.blocks), ser.sym_name(x.symmetry), g))
    for f, fam in enumerate(families):
        for i, j in itertools.combinations(range(len(fam)), 2):
            ctx.evaluations += 1
            req = real[(f, i)] is not None and real[(f, i)] == real[(f, j)]
            meq = mkeys[(f, i)] == mkeys[(f, j)]
            if not meq:
                ctx.mark_nontrivial(("pair", fam[i]["tag"], fam[j]["tag"], fam[0]["sym"], bool(fam[0]["prefuse"])))
            if req and not meq:
                # the real key does not see an attribute the model key sees: is a plan wrong?
                ctx.disagreements_checked += 1
                xi, gi = built[(f, i)]
                xj, gj = built[(f, j)]
                witness = None
                for (xa, ga, ta), (xb, gb, tb) in (((xi, gi, i), (xj, gj, j)), ((xj, gj, j), (xi, gi, i))):
                    ac._fuseinfos.clear()
                    ac.cached_fuse_block_info(xa, ga)
                    got = plan_digest(ac.cached_fuse_block_info(xb, gb))
                    want = plan_digest(ac.calc_fuse_block_info(xb, gb))
                    if got != want:
                        witness = (ta, tb)
                        break
                ac._fuseinfos.clear()
                if witness:
                    ctx.violation(
                        f"cache key collision: after a call on member '{fam[witness[0]]['tag']}' the cached "
                        f"plan returned for member '{fam[witness[1]]['tag']}' is not its own plan",
                        dict(family=fam, first=witness[0], then=witness[1]),
                        triggers={"key-collision", fam[witness[1]]["tag"].split("@")[0].split("#")[0]},
                        op="cached_fuse_block_info",
                    )
                else:
                    ctx.stat("a.harmless_collision")
            elif meq and not req:
                ctx.stat("a.extra_miss_pair(finding16_or_richer_key)")
            else:
                ctx.stat("a.pattern_agrees")
    return mkeys


# ------------------------------------------------------------------------------- run


def _cleanup_tmp():
    import shutil

    while _TMP:
        shutil.rmtree(_TMP.pop(), ignore_errors=True)


def run(ctx):
    try:
        _run(ctx)
    finally:
        _cleanup_tmp()


def _run(ctx):
    from .. import core

    rng = ctx.rng
    tier = ctx.tier
    families = make_families(rng, tier)
    for fam in families:
        ctx.stat("families")
        ctx.stat("members", len(fam))
    ctx.sample(dict(family_tags=[d["tag"] for d in families[0]], base=families[0][0]))

    # ---- launch the workers first (they run while this process does (a) and (c))
    maxsizes = MAXSIZES_QUICK if tier == "quick" else MAXSIZES_THOROUGH
    schedules = make_schedules(rng, tier)
    jobs = []
    for f, fam in enumerate(families):
        F = len(fam)
        seqs = make_seqs(rng, F, tier)
        mixed = make_mixed(rng, F, 150 if tier == "quick" else 1500)
        tags = [d["tag"] for d in fam]
        sel = [0, next(i for i, t in enumerate(tags) if t.startswith("size@")),
               next(i for i, t in enumerate(tags) if t.startswith("missing#")), 1]
        fsched = [dict(s, progs=[[sel[k] for k in p] for p in s["progs"]], init=[sel[k] for k in s["init"]])
                  for s in (schedules if (f == 0 or tier == "thorough") else schedules[:5])]
        for m in maxsizes:
            job = dict(
                family=fam, seqs=seqs, mixed=mixed, maxsize=m, seed=rng.randrange(10**9),
                schedules=fsched,
                stress=dict(threads=[2, 3, 4, 8] if tier == "quick" else [2, 3, 4, 5, 6, 7, 8, 8, 3, 3],
                            per_thread=40 if tier == "quick" else 200, seed=rng.randrange(10**9)),
                helper_rounds=2, plan_seqs=150,
                preempt=make_preempt(fam, tier) if (m in (1, 8192) and (tier == "thorough" or f < 2)) else None,
            )
            jobs.append((f, m, job))
    procs = []
    pending = list(jobs)
    results = {}
    running = []
    limit = max(2, core.NPROC - 2)
    t_end = time.time() + (600 if tier == "quick" else 3000)

    def pump(block):
        while pending and len(running) < limit:
            f, m, job = pending.pop(0)
            running.append((f, m, job, _launch(job, m, f"{f}_{m}")))
        if block and running:
            f, m, job, h = running.pop(0)
            results[(f, m)] = _collect(h, max(10, t_end - time.time()))

    pump(False)

    # ---- (a) key patterns, in this process
    mkeys = stream_keys(ctx, families)

    # ---- (c) mode context
    stream_modes(ctx, rng, 400 if tier == "quick" else 5000)

    # ---- collect
    while pending or running:
        pump(True)

    # ---- (b), (d), (e), (f)
    stream_histories(ctx, families, jobs, results, mkeys, maxsizes)
    stream_schedules(ctx, families, jobs, results, mkeys)
    tm = {}
    for r in results.values():
        for k, v in r.get("timing", {}).items():
            tm[k] = max(tm.get(k, 0), v)
    ctx.notes.append(f"slowest worker phase times (s): {tm}")
    # (g) first: its findings carry a deterministic schedule
    jobmap_p = {(f, m): job.get("preempt") for f, m, job in jobs}
    for (f, m), r in sorted(results.items()):
        pr = r.get("preempt") or dict(trials=0, findings=[], scenarios=0, lines=0)
        ctx.evaluations += pr["trials"]
        ctx.stat("g.preempt_schedules", pr["trials"])
        ctx.stat("g.preempt_scenarios", pr["scenarios"])
        if pr["trials"]:
            ctx.mark_nontrivial(("preempt", f, m, pr["trials"]))
        for fd in pr["findings"]:
            mm = fd["mismatches"][0]
            sc = fd["scenario"]
            ctx.violation(
                f"pre-emption at line event {fd['k']} ({fd['at']}) of {sc['A']['op']} while another thread runs "
                f"{sc['B']['op']} [{sc['name']}; history {sc['history']}; cache size {m}]: {mm['which']} is "
                f"{mm['got']} instead of {mm['want']}",
                dict(preempt=dict(scenario=sc, k=fd["k"], at=fd["at"], mismatches=fd["mismatches"],
                                  neutral=(jobmap_p.get((f, m)) or {}).get("neutral")),
                     maxsize=m, family=families[f]),
                triggers={"threads", "preemption"}, op=sc["A"]["op"])
    for (f, m), r in sorted(results.items()):
        for fd in r["stress"]["findings"]:
            trig = {"threads"}
            what = f"thread stress: {fd['op']} on a shared operand returned/raised something else than sequentially"
            if "dictionary is empty" in fd["got"] or "popitem" in fd["got"]:
                trig = {"threads>=3"} | ({"maxsize<=1"} if m <= 1 else {"threads>=maxsize+2"})
                ctx.violation("concurrent misses: popitem on an emptied cache raised " + fd["got"],
                              dict(maxsize=m, family=families[f], finding=fd), triggers=trig, op="cached_fuse_block_info")
            else:
                ctx.violation(what, dict(maxsize=m, family=families[f], finding=fd), triggers=trig, op=fd["op"])
        ctx.evaluations += sum(r["stress"]["rounds"]) * 1
        ctx.stat("d.stress_rounds", len(r["stress"]["rounds"]))
        ctx.stat("f.helper_calls", r["helpers_n"])
        for b in r["helpers_bad"]:
            ctx.violation(f"memoised helper {b['fn']} returned something else than the function",
                          dict(maxsize=m, **b), triggers={"lru_cache"}, op=b["fn"])


def _flatten(prog):
    for a in prog:
        yield a
        if isinstance(a, dict):
            for key in ("body", "try"):
                if isinstance(a.get(key), list):
                    yield from _flatten(a[key])


def stream_modes(ctx, rng, n):
    cases = []
    progs = []
    for k in range(n):
        init = rng.choice(["auto", "fused", "blockwise"])
        if k % 2 == 0:
            prog = rand_mode_prog(rng)
            # keep most raising blocks inside a try so that the program goes on and observes the mode
            prog = [{"try": [a]} if isinstance(a, dict) and "with" in a and rng.random() < 0.8 else a for a in prog]
            prog.append("get")
        else:
            # context managers / decorated functions created ahead of their use: a few blocks, each
            # inside a try so that the program goes on after an exception and observes the mode
            st = dict(n=0, made=[], decos=[])
            prog = []
            for _ in range(rng.randint(2, 4)):
                body, mr = rand_mode_prog2(rng, st, 1 if rng.random() < 0.7 else 0)
                prog.extend([{"try": body}, "get"] if mr or rng.random() < 0.5 else body + ["get"])
            if any(isinstance(a, dict) and ("enter" in a or "call" in a) for a in _flatten(prog)):
                ctx.stat("c.programs_with_prebuilt_managers")
        progs.append((init, prog))
        cases.append(dict(id=f"m{k}", kind="modeCtx", init=init, prog=translate_mode_prog(prog)))
    model = ctx.model(cases)
    for k, (init, prog) in enumerate(progs):
        ctx.evaluations += 1
        got, oracle = run_mode_prog(init, prog)
        if _has_raise_in_with(prog):
            ctx.mark_nontrivial(("mode", json.dumps(prog)))
        ctx.stat("c.mode_programs")
        if k < 1:
            ctx.sample(dict(mode_program=prog, init=init, observed=got))
        if oracle:
            ctx.violation("default contraction mode: " + oracle[0], dict(init=init, prog=prog, observed=got),
                          triggers={"mode-context"}, op="default_tensordot_mode")
            continue
        if model is not None:
            want = model[f"m{k}"]
            if "trace" not in want:
                raise RuntimeError(f"driver modeCtx: {want}")
            if (want["trace"], want["final"], want["raised"]) != (got["trace"], got["final"], got["raised"]):
                ctx.disagreements_checked += 1
                ctx.correspondence_broken("mode-context", json.dumps(dict(init=init, prog=prog, model=want, real=got))[:1500])


def _classes(keys):
    """member -> smallest member with the same key"""
    first = {}
    out = []
    for i, k in enumerate(keys):
        first.setdefault(k, i)
        out.append(first[k])
    return out


def stream_histories(ctx, families, jobs, results, mkeys, maxsizes):
    jobmap = {(f, m): job for f, m, job in jobs}
    for f, fam in enumerate(families):
        F = len(fam)
        ref = results[(f, 0)] if (f, 0) in results else None
        mcls = _classes([mkeys.get((f, i), i) for i in range(F)]) if mkeys else list(range(F))
        for m in maxsizes:
            r = results[(f, m)]
            job = jobmap[(f, m)]
            if r["maxsize_seen"] != m:
                # no wrong result, but the size settings the property quantifies over cannot be reached
                if not any(b[0] == "cache-config" for b in ctx.broken):
                    ctx.correspondence_broken(
                        "cache-config",
                        f"SYMMRAY_FUSE_CACHE_MAXSIZE={m} was not honoured (module uses {r['maxsize_seen']})")
            # results must not depend on the history inside one process …
            for inc in r["inconsistent"]:
                ctx.violation(
                    f"{inc['op']} on member '{fam[inc['member']]['tag']}' gave different results under two histories "
                    f"(cache size {m})", dict(maxsize=m, family=fam, **inc),
                    triggers={"history", f"maxsize={m}"}, op=inc["op"])
            for wp in r["wrong_plans"]:
                ctx.violation(
                    f"cached_fuse_block_info returned a plan that is not calc_fuse_block_info of its argument "
                    f"(member '{fam[wp['member']]['tag']}', cache size {m})", dict(maxsize=m, family=fam, **wp),
                    triggers={"history", f"maxsize={m}"}, op="cached_fuse_block_info")
            for st in r["stale_plans"]:
                ctx.violation(
                    f"a plan stored in the cache no longer equals a fresh computation (member '{fam[st]['tag']}')",
                    dict(maxsize=m, family=fam, member=st), triggers={"cached-object-mutated"}, op="cached_fuse_block_info")
            # … nor on the cache configuration: compare with the disabled cache
            if ref is not None and m != 0:
                for k, dg in r["digests"].items():
                    ctx.evaluations += 1
                    if k in ref["digests"] and ref["digests"][k] != dg:
                        i, op = k.split(":")
                        ctx.violation(
                            f"{op} on member '{fam[int(i)]['tag']}' differs between cache size {m} and a disabled cache",
                            dict(maxsize=m, family=fam, member=int(i), op=op, cached=dg, uncached=ref["digests"][k]),
                            triggers={"history", f"maxsize={m}"}, op=op)
            ctx.stat("b.calls", sum(len(s) for s in job["seqs"]) + sum(len(s) for s in job["mixed"]))
            ctx.stat("b.histories", len(job["seqs"]) + len(job["mixed"]))
            # cache contents order against the Lean cache model
            rcls_keys = [ks[0] if len(ks) == 1 else None for ks in r["keys"]]
            identifiable = [
                rcls_keys[i] is not None and all((rcls_keys[i] == rcls_keys[j]) == (mcls[i] == mcls[j]) for j in range(F))
                for i in range(F)
            ] if r["maxsize_seen"] != 0 else [True] * F
            seqs = [(n, s) for n, s in enumerate(job["seqs"]) if all(identifiable[i] for i in s)]
            ctx.stat("b.trace_histories_skipped(unidentifiable_keys)", len(job["seqs"]) - len(seqs))
            compare_traces(ctx, f, r["maxsize_seen"], fam, mcls, seqs, r["traces"])


def compare_traces(ctx, f, m, fam, mcls, seqs, traces):
    if not seqs:
        return
    pol_ok = None
    for pi, pol in enumerate(POLICIES):
        cases = [dict(id=f"h{n}", kind="cacheHistory", maxsize=m, keys=[mcls[i] for i in s], policy=pol)
                 for n, s in seqs]
        model = ctx.model(cases)
        if model is None:
            return
        bad = None
        for n, s in seqs:
            want = model[f"h{n}"]
            if "contents" not in want:
                raise RuntimeError(f"driver cacheHistory: {want}")
            real = [[mcls[i] for i in step if i >= 0] for step in traces[n]]
            if pi == 0:
                ev = want["events"]
                if "hit" in ev or "missEvict" in ev:
                    ctx.mark_nontrivial(("hist", f, m, tuple(s)))
            if want["contents"] != real:
                bad = dict(seq=s, tags=[fam[i]["tag"] for i in s], model=want["contents"], real=real, maxsize=m)
                break
        if bad is None:
            pol_ok = pi
            break
        if pi == 0:
            first_bad = bad
    ctx.evaluations += len(seqs)
    if pol_ok == 0:
        ctx.stat("b.trace_histories_agree", len(seqs))
    elif pol_ok is not None:
        ctx.stat("b.policy_drift")
        note = (f"cache replacement policy drift (results unaffected; the theorems hold for every policy): "
                f"the real cache follows {POLICIES[pol_ok]} instead of the modelled {POLICIES[0]}; "
                f"first difference {json.dumps(first_bad)[:400]}")
        if note[:60] not in [n[:60] for n in ctx.notes]:
            ctx.notes.append(note)
    else:
        ctx.disagreements_checked += 1
        ctx.correspondence_broken("cache-trace", json.dumps(first_bad)[:1500])


def stream_schedules(ctx, families, jobs, results, mkeys):
    todo = []  # (tag, maxsize, sch, got, progs, init, rcls) to be compared with the thread machine
    for f, m, job in jobs:
        if m == 0:
            continue
        r = results[(f, m)]
        fam = families[f]
        want_plan = r.get("plan_want", {})
        # members -> abstract keys through the real key classes (equal real keys = one key)
        rk = [ks[0] if len(ks) == 1 else f"?{i}" for i, ks in enumerate(r["keys"])]
        rcls = _classes(rk)
        for n, (sch, got) in enumerate(zip(job["schedules"], r["schedules"])):
            ctx.evaluations += 1
            ctx.stat("e.schedules")
            nt = len(sch["progs"])
            if len(set(sch["sched"][: 2 * nt])) > 1:
                ctx.mark_nontrivial(("sched", f, m, json.dumps(sch)))
            # ---- direct oracle: nobody raises, every completed call returned its own plan
            case = dict(maxsize=m, schedule=sch, family=fam, observed=got)
            alarmed = False
            for i, rs in enumerate(got["raised"]):
                if rs is not None:
                    alarmed = True
                    if rs["type"] == "KeyError" and "empty" in rs["msg"]:
                        trig = {"threads>=3"} if nt >= 3 else {"threads>=2"}
                        trig |= {"maxsize<=1"} if m <= 1 else {"threads>=maxsize+2"}
                        ctx.violation(
                            f"forced schedule '{sch['name']}' ({nt} threads, cache size {m}): thread {i} raised "
                            f"KeyError({rs['msg']}) from {rs['where']} - length test and popitem are separate steps",
                            case, triggers=trig, op="cached_fuse_block_info")
                    else:
                        ctx.violation(
                            f"forced schedule '{sch['name']}': thread {i} raised {rs['type']}({rs['msg']})",
                            case, triggers={"threads"}, op="cached_fuse_block_info")
            for i, outs in enumerate(got["outs"]):
                for mi, dg in outs:
                    if want_plan.get(str(mi)) != dg:
                        alarmed = True
                        ctx.violation(
                            f"forced schedule '{sch['name']}': thread {i} got a plan for member '{fam[mi]['tag']}' "
                            f"that is not calc_fuse_block_info of it", case, triggers={"threads"},
                            op="cached_fuse_block_info")
            if got["incomplete"]:
                ctx.stat("e.schedules_too_short")
            if not alarmed:
                todo.append((f"s{f}.{m}.{n}", r["maxsize_seen"], sch, got, rcls))
    if not ctx.driver_ok or not todo:
        return
    # ---- tie to the Lean thread machine (batched; other policies only for the mismatches)
    matched = {}
    first = {}
    left = todo
    for pi, pol in enumerate(POLICIES):
        cases = [dict(id=tag, kind="schedule", maxsize=m, progs=[[rcls[mi] for mi in p] for p in sch["progs"]],
                      sched=sch["sched"], init=[rcls[mi] for mi in sch.get("init", [])], policy=pol)
                 for tag, m, sch, got, rcls in left]
        model = ctx.model(cases)
        if model is None:
            return
        still = []
        for item in left:
            tag, m, sch, got, rcls = item
            w = model[tag]
            if "ops" not in w:
                raise RuntimeError(f"driver schedule: {w}")
            w_ops = ["idle" if o in ("idle", "return") else o for o in w["ops"]]
            w_outs = [[p[0] for p in t["out"]] for t in w["threads"]]
            r_outs = [[rcls[mi] for mi in outs] for outs in got["outs_end"]]
            r_cache = [rcls[i] if i >= 0 else -1 for i in got["cache_end"]]
            same = w_ops == got["ops"] and w_outs == r_outs and not w["anyRaised"] and w["cache"] == r_cache
            if pi == 0:
                first[tag] = dict(model_ops=w_ops, real_ops=got["ops"], model_outs=w_outs, real_outs=r_outs,
                                  model_cache=w["cache"], real_cache=r_cache, schedule=sch, maxsize=m)
            if same:
                matched[tag] = pi
            else:
                still.append(item)
        left = still
        if not left:
            break
    for tag, m, sch, got, rcls in todo:
        pi = matched.get(tag)
        if pi == 0:
            ctx.stat("e.schedules_agree")
        elif pi is not None:
            ctx.stat("e.policy_drift")
            note = ("thread machine: the real cache follows "
                    f"{POLICIES[pi]} instead of the modelled {POLICIES[0]} (results unaffected)")
            if note not in ctx.notes:
                ctx.notes.append(note)
        else:
            ctx.disagreements_checked += 1
            if sum(1 for b in ctx.broken if b[0] == "thread-machine") < 3:
                ctx.correspondence_broken("thread-machine", json.dumps(first[tag])[:1500])


def replay(ctx, payload):
    """re-run the failing input of a replay file on the real code; exit 1 when it still fails"""
    case = payload.get("case") or {}
    print(f"replaying: {payload.get('what')}")
    if "prog" in case and "init" in case:
        got, oracle = run_mode_prog(case["init"], case["prog"])
        print("observed", got, "oracle", oracle)
        return 1 if oracle else 0
    if "first" in case and "then" in case:
        from symmray import abelian_core as ac

        xa, ga = build_member(case["family"][case["first"]])
        xb, gb = build_member(case["family"][case["then"]])
        ac._fuseinfos.clear()
        ac.cached_fuse_block_info(xa, ga)
        bad = plan_digest(ac.cached_fuse_block_info(xb, gb)) != plan_digest(ac.calc_fuse_block_info(xb, gb))
        print("cached plan differs from its own plan:", bad)
        return 1 if bad else 0
    if "preempt" in case:
        pc = case["preempt"]
        job = dict(family=case["family"], seqs=[], mixed=[], maxsize=case["maxsize"], seed=0, schedules=[],
                   stress=dict(threads=[], per_thread=0, seed=0), helper_rounds=0,
                   preempt=dict(scenarios=[pc["scenario"]], explicit=[[0, pc["k"]]], neutral=pc.get("neutral"),
                                callee_cap=0, outside_cap=0))
        try:
            r = _collect(_launch(job, case["maxsize"], "replay"), 120)
        finally:
            _cleanup_tmp()
        print("observed", json.dumps(r["preempt"])[:2000])
        return 1 if r["preempt"]["findings"] else 0
    if "schedule" in case:
        job = dict(family=case["family"], seqs=[], mixed=[], maxsize=case["maxsize"], seed=0,
                   schedules=[case["schedule"]], stress=dict(threads=[], per_thread=0, seed=0), helper_rounds=0)
        try:
            r = _collect(_launch(job, case["maxsize"], "replay"), 120)
        finally:
            _cleanup_tmp()
        got = r["schedules"][0] if r["schedules"] else {}
        print("observed", json.dumps(got)[:1500])
        bad = any(x is not None for x in got.get("raised", [])) or any(
            r["plan_want"].get(str(mi)) != dg for outs in got.get("outs", []) for mi, dg in outs)
        return 1 if bad else 0
    print(json.dumps(payload, indent=1)[:4000])
    print("no automatic replay for this kind of case; re-run the check with the same seed")
    return 0


if __name__ == "__main__":
    if "--worker" in sys.argv:
        worker_main()
