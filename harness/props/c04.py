"""C04 — A fermionic network's value does not depend on how it is contracted."""

import random

from .. import gen, impl, oracle, ser, stream

ID = "C04"
LEVEL = "proof"
PROPS_MODULE = "SymmModel.Props.C04All14"
THEOREMS = [
    "SymmModel.C04.permuted_compose",
    "SymmModel.C04.compose_isPerm",
    "SymmModel.C04.koszul_cocycle",
    "SymmModel.C04.koszul_cocycle_needs_length",
    "SymmModel.C04.block_move_sign",
    "SymmModel.C04.reverse_block_sign",
    "SymmModel.C04.oddLt_strict_total",
    "SymmModel.C04.resolveScan_sorted",
    "SymmModel.C04.resolveScan_sign",
    "SymmModel.C04.sorted_unique",
    "SymmModel.C04.resolveScan_fuel",
    "SymmModel.C04.resolveScan_total",
    "SymmModel.C04.resolveCombinedOddpos_eq_merge",
    "SymmModel.C04.oddpos_sign",
    "SymmModel.C04.oddpos_assoc",
    "SymmModel.C04.resolveScan_annihilate_step",
    "SymmModel.C04.resolveScan_annihilate_adjacent",
    "SymmModel.C04.resolveScan_pair",
    "SymmModel.C04.resolveScan_clash_step",
    "SymmModel.C04.adm_of_admissible",
    "SymmModel.C04.tensordotF_structure",
    "SymmModel.C04.tdotF_axes_perm",
    "SymmModel.C04.gradedContract_axes_perm",
    "SymmModel.C04.preT_canonical",
    "SymmModel.C04.tdotF_pretranspose",
    "SymmModel.C04.pretranspose_sign_is_transpose_sign",
    "SymmModel.C04.tdotF_swap",
    "SymmModel.C04.swap_sign_value",
    "SymmModel.C04.gradedContract_swap",
    "SymmModel.C04.mergeOddpos_swap",
    "SymmModel.C04.assoc_sign_identity",
    "SymmModel.C04.swap_block_order_differs",
    "SymmModel.C04.tdotF_assoc_partial",
    "SymmModel.C04.tdotF_assoc_partial_at",
    "SymmModel.C04.tdotF_assoc_partial_dense",
    "SymmModel.C04.tdotF_assoc_partial_GRat",
    "SymmModel.C04.tensordotF_refines_graded_common",
    "SymmModel.C04.commonB_of_contractibleB",
    "SymmModel.C04.contractibleCommonB_def",
    "SymmModel.C04.assoc_vocabulary",
    "SymmModel.C04.route_left_value",
    "SymmModel.C04.pruned_not_contractible",
    "SymmModel.C04.tdotF_assoc",
    "SymmModel.C04.tdotF_assoc_labels",
    "SymmModel.C04.tdotF_assoc_at",
    "SymmModel.C04.tdotF_assoc_GRat",
    "SymmModel.C04.labelRoutes_iff",
    "SymmModel.C04.labelRoutes_of_distinct",
    "SymmModel.C04.labelRoutes_norm_one",
    "SymmModel.C04.conjugate_pairs_labels_route_dependent",
    "SymmModel.C04.conjugate_pairs_same_value",
    "SymmModel.C04.assoc2_vocabulary",
    "SymmModel.C06.tdotF_axes_perm_any_mode",
    "SymmModel.C06.tdotF_pretranspose_any_mode",
    "SymmModel.C06.tdotF_swap_any_mode",
    "SymmModel.C04.tdotF_assoc_weak",
    "SymmModel.C04.tdotF_assoc_weak_eqv",
    "SymmModel.C04.tdotF_valid_common",
    "SymmModel.C04.guard_after_left",
    "SymmModel.C04.guard_after_right",
    "SymmModel.C04.tdotF_congr_eqv",
    "SymmModel.C04.chain4_bracketings",
    "SymmModel.C04.chain4_dense",
    "SymmModel.C04.chain4_GRat",
    "SymmModel.C04.segment_assoc",
    "SymmModel.C04.seg_comp_def",
    "SymmModel.C04.eqv_def",
    "SymmModel.C04.eqv_equivalence",
    "SymmModel.C04.eqv_toDenseF",
    "SymmModel.C04.chain_bracketing",
    "SymmModel.C04.chain_bracketings_agree",
    "SymmModel.C04.chain_dense",
    "SymmModel.C04.chain_bracketing_GRat",
    "SymmModel.C04.comp_keeps_invariants",
    "SymmModel.C04.comp_congruence",
    "SymmModel.C04.comp_assoc",
    "SymmModel.C04.ok_iff_leaves",
    "SymmModel.C04.tdotF_swap_weak",
    "SymmModel.C04.chain_root_swap",
    "SymmModel.C04.leafOK_def",
    "SymmModel.C04.link_def",
    "SymmModel.C04.tree_defs",
    "SymmModel.C04.exTree_ok",
    "SymmModel.C06.tdotF_axes_perm_any_mode'",
    "SymmModel.C06.tdotF_pretranspose_any_mode'",
    "SymmModel.C06.tdotF_swap_any_mode'",
    "SymmModel.C06.tdotF_assoc_any_mode",
    "SymmModel.C06.tdotF_assoc_any_mode_distinct",
    "SymmModel.C06.tdotF_assoc_any_mode_stored",
    "SymmModel.C06.chain_bracketing_any_mode",
    "SymmModel.C06.chain_bracketings_agree_any_mode",
    "SymmModel.C04.chain_swapped_bracketing",
    "SymmModel.C04.chain_swapped_dense",
    "SymmModel.C04.tdotF_swap_eqv",
    "SymmModel.C04.tdotF_pretranspose_weak",
    "SymmModel.C04.netLabelsB_two",
    "SymmModel.C04.resolveScan_order_type",
    "SymmModel.C04.netLabelsB_order_type",
    "SymmModel.C04.compS_def",
    "SymmModel.C04.rotB_def",
    "SymmModel.C04.ftree_defs",
    "SymmModel.C04.emb_def",
    "SymmModel.C04.tdotF_axes_perm_weak",
    "SymmModel.C04.tdotF_axes_pairs_weak",
    "SymmModel.C04.net4_bracketings",
    "SymmModel.C04.net4_dense",
    "SymmModel.C04.net4_GRat",
    "SymmModel.C04.square4_bracketings",
    "SymmModel.C04.star4_bracketings",
    "SymmModel.C04.pendant4_bracketings",
    "SymmModel.C04.net4_flagged",
    "SymmModel.C04.teq_dense",
    "SymmModel.C04.teq_of_eqv",
    "SymmModel.C04.teq_trans",
    "SymmModel.C04.transposeF_congr_eqv",
    "SymmModel.C04.transposeF_comp_eqv",
    "SymmModel.C04.tdotF_pretranspose_eqv",
    "SymmModel.C04.exchange3",
    "SymmModel.C04.net4_all_orders",
    "SymmModel.C04.net4_every_route",
    "SymmModel.C04.net4_every_route_ref",
    "SymmModel.C04.net4_routes_agree",
    "SymmModel.C04.exNet_ok",
    "SymmModel.C04.routeM_blockwise",
    "SymmModel.C04.zeroPad_blockwise_eqv",
    "SymmModel.C04.net4_bracketings_modes",
    "SymmModel.C04.net4_every_route_modes",
    "SymmModel.C04.net4_every_route_modes_ref",
    "SymmModel.C04.net4_routes_agree_modes",
    "SymmModel.C04.net4_flagged_modes",
    "SymmModel.C04.net4_every_route_flagged_modes",
    "SymmModel.C04.zeroPad_transposeF",
    "SymmModel.C04.refM_to_reference",
    "SymmModel.C04.net4_routes_agree_modes_at",
    "SymmModel.C04.two_step_frame_partial",
    "SymmModel.C04.netLabelsB_four",
    "SymmModel.C04.labelRoutes_four",
    "SymmModel.C04.netLabelsB_pattern4",
    "SymmModel.C04.labelRoutes_pattern4",
    "SymmModel.C04.two_step_einsum_succeeds",
    "SymmModel.C04.two_step_values",
    "SymmModel.C04.two_step_values_at",
    "SymmModel.C04.two_step_sign_identity",
    "SymmModel.C04.two_step_einsum_order",
    "SymmModel.C04.two_step_values_onestep_any_mode",
    "SymmModel.C04.einsumF_rename",
    "SymmModel.C04.einsumA_rename",
    "SymmModel.C04.two_step_values_renamed",
    "SymmModel.C04.two_step_values_at_renamed",
    "SymmModel.C04.two_step_values_abelian_partial",
    "SymmModel.C04.two_step_sectors_abelian_partial",
    "SymmModel.C04.two_step_abelian_sum",
    "SymmModel.C04.two_step_values_abelian_sorted_partial",
    "SymmModel.C04.einsum_form_sorted"
]
LEAN_FILES = ["SymmModel.Props.C04", "SymmModel.Proofs.Oddpos", "SymmModel.Proofs.Koszul", "SymmModel.Props.C04b", "SymmModel.Props.C04All", "SymmModel.Proofs.Routes", "SymmModel.Proofs.Routes2", "SymmModel.Proofs.Routes3", "SymmModel.Proofs.Routes4", "SymmModel.Props.C04c", "SymmModel.Props.C04All2", "SymmModel.Proofs.AssocWeak", "SymmModel.Proofs.AssocGeom", "SymmModel.Proofs.AssocSum", "SymmModel.Proofs.AssocFrame", "SymmModel.Proofs.AssocLeft", "SymmModel.Proofs.AssocRight", "SymmModel.Proofs.AssocIdx", "SymmModel.Proofs.AssocMain", "SymmModel.Props.C04d", "SymmModel.Props.C04All3", "SymmModel.Proofs.Assoc2Geom", "SymmModel.Proofs.Assoc2Sum", "SymmModel.Proofs.Assoc2Left", "SymmModel.Proofs.Assoc2Right", "SymmModel.Proofs.Assoc2Main", "SymmModel.Props.C06c", "SymmModel.Props.C04All4", "SymmModel.Props.C04e", "SymmModel.Props.C04All5", "SymmModel.Proofs.Assoc3Valid", "SymmModel.Proofs.Assoc3Frame", "SymmModel.Proofs.Assoc3Left", "SymmModel.Proofs.Assoc3Right", "SymmModel.Proofs.Assoc3Main", "SymmModel.Proofs.Assoc3Eqv", "SymmModel.Proofs.Assoc3Chain", "SymmModel.Proofs.Assoc3Seg", "SymmModel.Props.C04f", "SymmModel.Props.C04All6", "SymmModel.Proofs.Assoc4Seg", "SymmModel.Proofs.Assoc4Tree", "SymmModel.Proofs.Assoc4Swap", "SymmModel.Props.C06d", "SymmModel.Props.C04All7", "SymmModel.Props.C06e", "SymmModel.Props.C04All8", "SymmModel.Props.C04g", "SymmModel.Props.C04All9", "SymmModel.Proofs.Assoc5Pre", "SymmModel.Proofs.Assoc5Swap", "SymmModel.Proofs.Assoc5Tree", "SymmModel.Proofs.Assoc5Labels", "SymmModel.Proofs.Assoc5Two", "SymmModel.Props.C04h", "SymmModel.Proofs.Net4Relist", "SymmModel.Proofs.Net4K4", "SymmModel.Proofs.Net4Flag", "SymmModel.Proofs.Net4Trans", "SymmModel.Proofs.Net4Pre", "SymmModel.Proofs.Net4Exch", "SymmModel.Proofs.Net4Star", "SymmModel.Proofs.Net4Moves", "SymmModel.Proofs.Net4Orders", "SymmModel.Props.C04i", "SymmModel.Proofs.Net4M1", "SymmModel.Proofs.Net4M2", "SymmModel.Proofs.Net4M3", "SymmModel.Proofs.Net4M4", "SymmModel.Proofs.Net4M5", "SymmModel.Proofs.Net4M6", "SymmModel.Proofs.Net4M7", "SymmModel.Proofs.Net4M8", "SymmModel.Proofs.Net4M9", "SymmModel.Proofs.Net4M10", "SymmModel.Props.C04j", "SymmModel.Props.C04All12", "SymmModel.Proofs.TwoStepDefs", "SymmModel.Proofs.TwoStepSum", "SymmModel.Proofs.TwoStepGeom", "SymmModel.Proofs.TwoStepOrder", "SymmModel.Proofs.TwoStepOrder2", "SymmModel.Proofs.TwoStepSign", "SymmModel.Proofs.TwoStepInter", "SymmModel.Proofs.TwoStepSec", "SymmModel.Proofs.TwoStepMain", "SymmModel.Proofs.TwoStepFinal", "SymmModel.Proofs.TwoStepFrame", "SymmModel.Proofs.TwoStepAll", "SymmModel.Props.C04k", "SymmModel.Proofs.TwoStepM1", "SymmModel.Proofs.TwoStepM2", "SymmModel.Proofs.TwoStepM3", "SymmModel.Props.C04l", "SymmModel.Proofs.TwoStepN1", "SymmModel.Proofs.TwoStepN2"]
PLANNED = ["label routes for fully paired label lists with more than four labels per tensor (<= 4 proved symbolically over every interleaving pattern", "it cannot follow from sortedness and distinctness alone: conjugate_pairs_labels_route_dependent)", "networks of more than four tensors with arbitrary graphs (chains of any length and all four-tensor graphs proved, every mode)", "two-step contraction with the FIRST call in fused/auto mode and for non-monotone label renamings (one-step call in any mode and increasing renamings proved)", "the abelian two-step form identified with einsumA (proved as an explicit trace sum: two_step_values_abelian_partial)"]
RULE = ("random networks of 2-4 fermionic tensors (chains, triangles, stars; with and without dangling legs), all "
        "symmetries, random bond orientations, every mix of even/odd charges with distinct labels, sparse, pending "
        "signs; 4 random routes per network differing in contraction order, operand order, axis listing order, "
        "pre-transposition of operands and one-at-a-time contraction (partial tensordot + einsum trace); results "
        "brought to one leg order by fermionic transpose and compared with each other (real code) and with the Lean "
        "model, labels included. non-trivial: >= 1 odd tensor and >= 2 distinct routes"
        '; doubled <psi|psi> networks (each tensor and its conjugate) with forced ket-half.bra-half and bra-half.ket-half routes; fully contracted results must carry no labels')
ANCHORS = {"fermionic_core.py": ["tensordot_fermionic", "resolve_combined_oddpos", "transpose", "einsum",
                                 "phase_flip", "phase_transpose"],
           "fermionic_local_operators.py": ["FermionicOperator"],
           "symmetries.py": ["calc_phase_permutation"]}
ASSUMPTIONS = []


def _mk_case(env, steps):
    return {"kind": "prog", "env": {k: ser.enc_val(v) for k, v in env.items()}, "steps": steps}


def make_network(rng, sym, static, dtype, keep, pending):
    shape = rng.choice(["chain2", "chain3", "triangle", "chain4", "star"])
    nt = {"chain2": 2, "chain3": 3, "triangle": 3, "chain4": 4, "star": 4}[shape]
    if shape.startswith("chain"):
        edges = [(i, i + 1) for i in range(nt - 1)]
        if shape == "chain2" and rng.random() < 0.5:
            edges.append((0, 1))  # double bond
    elif shape == "triangle":
        edges = [(0, 1), (1, 2), (0, 2)]
    else:
        edges = [(0, 1), (0, 2), (0, 3)]
    legs = [[] for _ in range(nt)]
    idxs = [[] for _ in range(nt)]
    for k, (i, j) in enumerate(edges):
        ix = gen.rand_index(rng, sym, max_charges=2, max_size=2)
        legs[i].append(f"b{k}")
        idxs[i].append(ix)
        legs[j].append(f"b{k}")
        idxs[j].append(ix.conj())
    for t in range(nt):
        for d in range(rng.randint(0, 1 if nt >= 3 else 2)):
            legs[t].append(f"p{t}_{d}")
            idxs[t].append(gen.rand_index(rng, sym, max_charges=2, max_size=2))
    tens = []
    labels = rng.sample(range(1, 60), nt)
    if rng.random() < 0.25:
        labels[rng.randrange(nt)] = 0  # the natural first-site label is falsy
    for t in range(nt):
        order = list(range(len(legs[t])))
        rng.shuffle(order)
        legs[t] = [legs[t][o] for o in order]
        idxs[t] = [idxs[t][o] for o in order]
        if rng.random() < 0.35:
            # a bra-type tensor: generated as the conjugate of an array over the conjugate legs,
            # so that its label is a dual (creation-type) one
            y = gen.rand_array(rng, sym, indices=[ix.conj() for ix in idxs[t]], fermi=True, static=static,
                               dtype=dtype, keep=keep, pending=pending, label=labels[t],
                               parity=rng.choice([0, 1, 1, None]))
            tens.append(y.conj())
        else:
            tens.append(gen.rand_array(rng, sym, indices=idxs[t], fermi=True, static=static, dtype=dtype, keep=keep,
                                       pending=pending, label=labels[t], parity=rng.choice([0, 1, 1, None])))
        if not tens[-1].parity and rng.random() < 0.4:
            # an EVEN tensor constructed with a label given as a FermionicOperator object: even tensors carry no label
            import symmray as sr
            x_ = tens[-1]
            kw_ = {} if type(x_).__name__ != "FermionicArray" else {"symmetry": x_.symmetry}
            tens[-1] = type(x_)(indices=x_.indices, charge=x_.charge, blocks=dict(x_.blocks), phases=dict(x_.phases),
                                oddpos=sr.FermionicOperator(labels[t]), **kw_)
    return shape, tens, legs


def route_steps(rng, legs, tag):
    """one random route: returns (steps, final name, final legs)"""
    live = {f"T{t}": list(l) for t, l in enumerate(legs)}
    steps = []
    k = 0
    while len(live) > 1:
        names = sorted(live)
        cands = [(a, b) for i, a in enumerate(names) for b in names[i + 1:] if set(live[a]) & set(live[b])]
        if not cands or (len(names) >= 3 and rng.random() < 0.12):
            # any pair, bonded or not: a step may be an outer product (zero contracted axes)
            cands = [(a, b) for i, a in enumerate(names) for b in names[i + 1:]
                     if len(live[a]) + len(live[b]) <= 6] or cands
        a, b = rng.choice(cands)
        if rng.random() < 0.5:
            a, b = b, a
        # optional pre-transposition of an operand
        if rng.random() < 0.3 and len(live[a]) >= 2:
            perm = list(range(len(live[a])))
            rng.shuffle(perm)
            nm = f"{tag}P{k}"
            steps.append({"out": [nm], "op": "transpose", "in": [a], "params": {"axes": perm}})
            live[nm] = [live[a][q] for q in perm]
            del live[a]
            a = nm
        common = [nm for nm in live[a] if nm in live[b]]
        rng.shuffle(common)
        now = common
        later = []
        if len(common) >= 2 and rng.random() < 0.3:
            now, later = common[:1], common[1:]
        xa = [live[a].index(nm) for nm in now]
        xb = [live[b].index(nm) for nm in now]
        outn = f"{tag}R{k}"
        k += 1
        steps.append({"out": [outn], "op": "tensordot", "in": [a, b],
                      "params": {"axes": [xa, xb], "mode": rng.choice(["fused", "blockwise", "auto"])}})
        newlegs = [nm for nm in live[a] if nm not in now] + [nm for nm in live[b] if nm not in now]
        del live[a], live[b]
        if later:
            # contract the remaining shared pairs one after another by a single-array einsum trace
            uniq = []
            for nm in newlegs:
                if nm not in uniq:
                    uniq.append(nm)
            lhs = [uniq.index(nm) for nm in newlegs]
            rhs_names = [nm for nm in uniq if nm not in later]
            rhs = [uniq.index(nm) for nm in rhs_names]
            outn2 = f"{tag}E{k}"
            steps.append({"out": [outn2], "op": "einsum", "in": [outn], "params": {"lhs": lhs, "rhs": rhs}})
            outn, newlegs = outn2, rhs_names
        live[outn] = newlegs
    final = next(iter(live))
    fl = live[final]
    canon = sorted(fl)
    if fl != canon:
        nm = f"{tag}F"
        steps.append({"out": [nm], "op": "transpose", "in": [final], "params": {"axes": [fl.index(q) for q in canon]}})
        final = nm
    return steps, final


def make_doubled_network(rng, sym, static, dtype, keep, pending):
    """<psi|psi>: a chain of k ket tensors (mostly odd) and their conjugates, physical legs joined.
    Every label occurs twice (x and its conjugate), so merged label lists contain nested conjugate pairs."""
    k = rng.choice([2, 2, 3])
    labels = rng.sample(range(1, 60), k)
    if rng.random() < 0.3:
        labels[rng.randrange(k)] = 0  # a tensor labelled 0 together with its conjugate in one network
    kets, klegs = [], []
    bonds = [gen.rand_index(rng, sym, max_charges=2, max_size=2) for _ in range(k - 1)]
    for t in range(k):
        lg, ix = [f"p{t}"], [gen.rand_index(rng, sym, max_charges=2, max_size=2)]
        if t > 0:
            lg.append(f"b{t - 1}")
            ix.append(bonds[t - 1].conj())
        if t < k - 1:
            lg.append(f"b{t}")
            ix.append(bonds[t])
        order = list(range(len(lg)))
        rng.shuffle(order)
        lg = [lg[o] for o in order]
        ix = [ix[o] for o in order]
        kets.append(gen.rand_array(rng, sym, indices=ix, fermi=True, static=static, dtype=dtype, keep=keep,
                                   pending=pending, label=labels[t], parity=rng.choice([1, 1, 1, 0, None])))
        klegs.append(lg)
    bras = [x.conj() for x in kets]
    blegs = [[nm if nm.startswith("p") else "c" + nm for nm in lg] for lg in klegs]
    return f"doubled{k}", kets + bras, klegs + blegs, k


def halves_route(legs, k, tag, ket_first):
    """contract the ket half, the bra half, then the two halves (in the given order)"""
    steps = []
    live = {f"T{t}": list(l) for t, l in enumerate(legs)}

    def contract(a, b, outn):
        common = [nm for nm in live[a] if nm in live[b]]
        xa = [live[a].index(nm) for nm in common]
        xb = [live[b].index(nm) for nm in common]
        steps.append({"out": [outn], "op": "tensordot", "in": [a, b],
                      "params": {"axes": [xa, xb], "mode": "auto"}})
        live[outn] = [nm for nm in live[a] if nm not in common] + [nm for nm in live[b] if nm not in common]
        del live[a], live[b]
        return outn

    halves = []
    for h, rng_ in enumerate((range(k), range(k, 2 * k))):
        acc = f"T{rng_[0]}"
        for j, t in enumerate(rng_[1:]):
            acc = contract(acc, f"T{t}", f"{tag}H{h}_{j}")
        halves.append(acc)
    a, b = halves if ket_first else halves[::-1]
    return steps, contract(a, b, f"{tag}Z")


def rebuild_case(rng):
    """an intermediate that subsumes two odd tensors (even parity, two labels) is re-materialised through the
    constructor / from_blocks with its own label list, then contracted with a third odd tensor whose label
    sorts between the two: the rebuilt route must equal the direct one (value, sign, labels)."""
    import symmray as sr

    sym = rng.choice(gen.SYMS)
    static = rng.random() < 0.7
    dtype = rng.choice(["float64", "complex128"])
    l1, l3 = sorted(rng.sample(range(1, 40), 2))
    if l3 - l1 < 2:
        l3 = l1 + 2
    l2 = rng.randint(l1 + 1, l3 - 1)
    i_ab = gen.rand_index(rng, sym, max_charges=2, max_size=2)
    i_bc = gen.rand_index(rng, sym, max_charges=2, max_size=2)
    pa, pc = (gen.rand_index(rng, sym, max_charges=2, max_size=2) for _ in range(2))
    A = gen.rand_array(rng, sym, indices=[pa, i_ab], fermi=True, static=static, dtype=dtype, keep=1.0, parity=1,
                       label=l1, pending=rng.random() < 0.3)
    B = gen.rand_array(rng, sym, indices=[i_ab.conj(), i_bc], fermi=True, static=static, dtype=dtype, keep=1.0,
                       parity=1, label=l3, pending=rng.random() < 0.3)
    C = gen.rand_array(rng, sym, indices=[i_bc.conj(), pc], fermi=True, static=static, dtype=dtype, keep=1.0,
                       parity=1, label=l2)
    env = {"T0": A, "T1": B, "T2": C}
    steps = [{"out": ["ab"], "op": "tensordot", "in": ["T0", "T1"], "params": {"axes": [[1], [0]], "mode": "auto"}},
             {"out": ["abc"], "op": "tensordot", "in": ["ab", "T2"], "params": {"axes": [[1], [0]], "mode": "auto"}}]
    res, env2 = impl.run_prog(env, steps)
    orc = None
    meta = dict(sym=sym, static=static, shape="rebuild", pending=bool(A.phases or B.phases),
                nodd=sum(int(t.parity) for t in (A, B, C)))
    if not all("ok" in r for r in res):
        orc = "contraction raised: " + str([r.get("msg") for r in res if "raise" in r][:1])
    elif A.parity and B.parity and C.parity and env2["ab"].blocks:
        T = env2["ab"].phase_sync()
        ref = ser.canon_array(ser.enc_array(env2["abc"]), tables=False)
        kw = dict(gen.array_class(sym, True, static)[1])
        try:
            builds = {
                "constructor": type(T)(indices=T.indices, charge=T.charge, blocks=dict(T.blocks),
                                       oddpos=list(T.oddpos), **kw),
                "from_blocks": type(T).from_blocks(dict(T.blocks), [ix.dual for ix in T.indices], charge=T.charge,
                                                   oddpos=list(T.oddpos), **kw),
            }
            for how, T2 in builds.items():
                if [(o.label, o.dual) for o in T2.oddpos] != [(o.label, o.dual) for o in T.oddpos]:
                    orc = (f"an even array rebuilt through {how} with its label list {list(T.oddpos)} carries "
                           f"{list(T2.oddpos)}")
                    break
                got = ser.canon_array(ser.enc_array(sr.tensordot(T2, C, ((1,), (0,)), preserve_array=True)), tables=False)
                if got != ref:
                    orc = f"route through the intermediate rebuilt by {how} differs from the direct route (value, sign or labels)"
                    break
        except Exception as e:  # noqa
            orc = f"rebuilding an intermediate with its label list raised {type(e).__name__}: {e}"
    return dict(case=_mk_case(env, steps), impl=stream.strip_py(res), oracle=orc, meta=meta,
                nontrivial=bool(meta["nodd"] == 3), op="network", triggers=[])


def matmul_chain_case(rng):
    """vector · matrix · vector through the `@` entry point in both bracketings, against tensordot"""
    import symmray as sr

    sym = rng.choice(gen.SYMS)
    static = rng.random() < 0.7
    dtype = rng.choice(["float64", "complex128"])
    i1 = gen.rand_index(rng, sym, max_charges=2, max_size=2)
    i2 = gen.rand_index(rng, sym, max_charges=2, max_size=2)
    l = rng.sample(range(1, 40), 3)
    v = gen.rand_array(rng, sym, indices=[i1], fermi=True, static=static, dtype=dtype, keep=1.0, label=l[0],
                       parity=rng.choice([1, 1, 0]), pending=rng.random() < 0.3)
    M = gen.rand_array(rng, sym, indices=[i1.conj(), i2], fermi=True, static=static, dtype=dtype, keep=1.0, label=l[1],
                       parity=rng.choice([1, 0, None]), pending=rng.random() < 0.3)
    w = gen.rand_array(rng, sym, indices=[i2.conj()], fermi=True, static=static, dtype=dtype, keep=1.0, label=l[2],
                       parity=rng.choice([1, 0, None]))
    env = {"T0": v, "T1": M, "T2": w}
    steps = [{"out": ["a1"], "op": "tensordot", "in": ["T0", "T1"], "params": {"axes": [[0], [0]], "mode": "blockwise"}},
             {"out": ["a2"], "op": "tensordot", "in": ["a1", "T2"], "params": {"axes": [[0], [0]], "mode": "blockwise"}},
             {"out": ["b1"], "op": "matmul", "in": ["T0", "T1"], "params": {}},
             {"out": ["b2"], "op": "matmul", "in": ["b1", "T2"], "params": {}},
             {"out": ["c1"], "op": "matmul", "in": ["T1", "T2"], "params": {}},
             {"out": ["c2"], "op": "matmul", "in": ["T0", "c1"], "params": {}}]
    res, env2 = impl.run_prog(env, steps)
    orc = None
    if not all("ok" in r for r in res):
        if any(v_.parity for v_ in (v, M, w)) or True:
            orc = "a route raised: " + str([r.get("msg") for r in res if "raise" in r][:2])
    else:
        ref = env2["a2"]
        ref = complex(ref.phase_sync().blocks.get((), 0.0)) if hasattr(ref, "blocks") else complex(ref)
        for nm in ("b2", "c2"):
            got = env2[nm]
            got = complex(got.phase_sync().blocks.get((), 0.0)) if hasattr(got, "blocks") else complex(got)
            if got != ref:
                orc = f"(v @ M) @ w / v @ (M @ w) [{nm}] = {got} differs from the tensordot route {ref}"
                break
    meta = dict(sym=sym, static=static, shape="matmul-chain", pending=bool(v.phases or M.phases),
                nodd=sum(int(t.parity) for t in (v, M, w)))
    return dict(case=_mk_case(env, steps), impl=stream.strip_py(res), oracle=orc, meta=meta,
                nontrivial=bool(meta["nodd"] >= 2), op="network", triggers=[])


def _scalar_forms(env2, steps):
    """every step of a route that contracts a network completely (rank-0 result) is repeated in its SCALAR form —
    the default `preserve_array=False` return path of tensordot — and must give the same number, overall sign
    included, as the array form the routes were compared in"""
    import symmray as sr

    for st in steps:
        if st["op"] != "tensordot" or st["out"][0] not in env2:
            continue
        r = env2[st["out"][0]]
        if not isinstance(r, sr.FermionicArray) or r.ndim != 0:
            continue
        a, b = env2[st["in"][0]], env2[st["in"][1]]
        xa, xb = st["params"]["axes"]
        want = complex(r.phase_sync().blocks.get((), 0.0))
        for mode in (st["params"].get("mode"), None):
            got = sr.tensordot(a, b, (tuple(xa), tuple(xb)), **({"mode": mode} if mode else {}))
            if isinstance(got, sr.AbelianArray):
                return f"tensordot to rank 0 without preserve_array returned an array (mode={mode})"
            if complex(got) != want:
                return (f"closed network: the scalar returned by tensordot ({complex(got)}, mode={mode}) differs from "
                        f"the value of the same contraction kept as an array ({want}): the overall sign depends on "
                        f"the return path")
    return None


def gen_cases(seed, chunk, n, tier):
    rng = random.Random(seed * 7919 + chunk * 104729 + 4)
    out = [rebuild_case(rng) for _ in range(max(1, n // 12))]
    for _ in range(max(1, n // 5)):
        sym = rng.choice(gen.SYMS)
        static = rng.random() < 0.7
        dtype = rng.choice(["float64", "complex128"])
        pending = rng.random() < 0.4
        shape, tens, legs, k = make_doubled_network(rng, sym, static, dtype, rng.choice([0.7, 1.0]), pending)
        env = {f"T{t}": x for t, x in enumerate(tens)}
        steps, finals = [], []
        for r, kf in enumerate((True, False)):
            st, fin = halves_route(legs, k, f"r{r}", kf)
            steps += st
            finals.append(fin)
        for r in (2, 3):
            st, fin = route_steps(rng, legs, f"r{r}")
            steps += st
            finals.append(fin)
        res, env2 = impl.run_prog(env, steps)
        orc = None
        if not all("ok" in r for r in res):
            orc = "a route raised: " + str([r.get("msg") for r in res if "raise" in r][:2])
        else:
            vals = [ser.canon_array(ser.enc_array(env2[f]), tables=False) for f in finals]
            for r in range(1, 4):
                if vals[r] != vals[0]:
                    orc = (f"<psi|psi> network: route {r} and route 0 (ket half . bra half) give different results "
                           f"(value, sign or labels)")
                    break
            if orc is None and getattr(env2[finals[0]], "oddpos", ()):
                orc = f"fully contracted <psi|psi> keeps labels {[(o.label, o.dual) for o in env2[finals[0]].oddpos]}"
            if orc is None:
                orc = _scalar_forms(env2, steps)
        meta = dict(sym=sym, static=static, shape=shape, pending=pending, nodd=sum(int(t.parity) for t in tens))
        out.append(dict(case=_mk_case(env, steps), impl=stream.strip_py(res), oracle=orc, meta=meta,
                        nontrivial=bool(meta["nodd"] >= 2), op="network", triggers=[]))
    for _ in range(max(1, n // 12)):
        out.append(matmul_chain_case(rng))
    for _ in range(n):
        sym = rng.choice(gen.SYMS)
        static = rng.random() < 0.7
        dtype = rng.choice(["float64", "complex128"])
        keep = rng.choice([0.6, 1.0])
        pending = rng.random() < 0.4
        shape, tens, legs = make_network(rng, sym, static, dtype, keep, pending)
        env = {f"T{t}": x for t, x in enumerate(tens)}
        steps = []
        finals = []
        nroutes = 4
        for r in range(nroutes):
            st, fin = route_steps(rng, legs, f"r{r}")
            steps += st
            finals.append(fin)
        res, env2 = impl.run_prog(env, steps)
        orc = None
        if not all("ok" in r for r in res):
            orc = "a route raised: " + str([r.get("msg") for r in res if "raise" in r][:2])
        else:
            vals = [ser.canon_array(ser.enc_array(env2[f]), tables=False) for f in finals]
            for r in range(1, nroutes):
                if vals[r] != vals[0]:
                    orc = f"route {r} and route 0 give different results (value, sign or labels)"
                    break
            if orc is None:
                orc = _scalar_forms(env2, steps)
        meta = dict(sym=sym, static=static, shape=shape, pending=pending,
                    nodd=sum(int(t.parity) for t in tens))
        distinct = len({repr([s for s in steps if s["out"][0].startswith(f"r{r}")]).replace(f"r{r}", "") for r in range(nroutes)})
        out.append(dict(case=_mk_case(env, steps), impl=stream.strip_py(res), oracle=orc, meta=meta,
                        nontrivial=bool(meta["nodd"] >= 1 and distinct >= 2), op="network", triggers=[]))
    return out


def run(ctx):
    from .. import tie

    # translation tie: Lean definitions regenerated from /repo's source + equality theorems with the model
    ctx.tie = tie.run_tie(ctx, tie.FUNCTIONS["C04"])
    n = 2500 if ctx.tier == "quick" else 20000
    stream.run_stream(ctx, "routes", "harness.props.c04", "gen_cases", n, per_chunk=25,
                      canon_kw=dict(drop_zero=True, tables=False))


def replay(ctx, payload):
    return stream.replay(ctx, payload, canon_kw=dict(drop_zero=True, tables=False))
