"""C07 — Reshape only regroups axes and is undone by reshaping back.

Streams
  (a) planner     `symmray.abelian_core.calc_reshape_args` vs the Lean `calcReshapeArgs`,
                  exhaustively on the stated domain (shapes with 1..5 axes of sizes in
                  {1,2,3,4,6}; every target reachable by merging adjacent axes and/or dropping
                  size-one axes; and the trip back, where the merged axes carry sub-sizes):
                  47 660 shape/target pairs.  Direct oracle: applying the returned plan
                  symbolically (independent Python executor) gives the target shape, and the
                  plan of the trip back gives the original shape with no fused axis left.
                  The Lean enumeration of the domain (the one the kernel-checked table
                  quantifies over) is compared with the Python enumeration shape by shape.
                  Plus a random extension (targets with inserted size-one axes, fused inputs).
  (b) arrays      `x.reshape(s)` / `sr.reshape(x, s)` / `autoray.do("reshape", x, s)` on sparse
                  abelian and fermionic arrays (size-one axes with zero and non-zero charge,
                  already-fused axes, pending signs) for all merge/drop targets, `-1` entries and
                  targets with inserted size-one axes, vs the Lean model (`prog` protocol), with
                  direct oracles on the real results: requested number of axes, no axis larger
                  than requested, same exact norm, same multiset of stored magnitudes, there-
                  and-back restores the original exactly, reshape to the current shape is the
                  identity, inserted axes are neutral (size one, zero charge, direction of the
                  left neighbour — right neighbour when left-most).
  (c) monitor     every plan the REAL planner returned while (b) ran is checked by the Lean
                  certificate `Plan.wfB` (covers shapes outside the table).
"""

import itertools
import json
import math
import random
from collections import Counter

from .. import gen, impl, oracle, ser

ID = "C07"
LEVEL = "proof"
PROPS_MODULE = "SymmModel.Props.C07All9"
THEOREMS = [
    "SymmModel.C07.plan_certificate_sound",
    "SymmModel.C07.plan_certificate_size",
    "SymmModel.C07.planner_finite_ok",
    "SymmModel.C07.reshape_self_id",
    "SymmModel.C07.reshape_self_id_fused_counterexample",
    "SymmModel.C07.planner_empty_target_raises",
    "SymmModel.C07.reshapeK_data",
    "SymmModel.C07.expandDims_data",
    "SymmModel.C07.squeeze_data",
    "SymmModel.C07.mapBlocks_data",
    "SymmModel.C07.content_perm_nonzero",
    "SymmModel.C07.content_normSq2",
    "SymmModel.C07.fuseCore_multiset",
    "SymmModel.C07.fuseCore_multiset_general",
    "SymmModel.C07.fuseCore_concat_multiset",
    "SymmModel.C07.fuseA_multiset",
    "SymmModel.C07.unfuseA_multiset",
    "SymmModel.C07.expandDims_multiset",
    "SymmModel.C07.squeeze_multiset",
    "SymmModel.C07.fused_size_le",
    "SymmModel.C07.applyPlan_content",
    "SymmModel.C07.applyPlan_axes_count",
    "SymmModel.C07.reshape_axes_count",
    "SymmModel.C07.reshape_self_identity",
    "SymmModel.C07.planner_wf_of_trailing",
    "SymmModel.C07.planner_wf",
    "SymmModel.C07.planner_shape_exact",
    "SymmModel.C07.planner_wf_unfused",
    "SymmModel.C07.planner_size_mismatch_counterexample",
    "SymmModel.C07.planner_zero_size_counterexample",
    "SymmModel.C07.planner_trailing_target_counterexample",
    "SymmModel.C07.planner_empty_target_excluded",
    "SymmModel.C07.window_match_excluded",
    "SymmModel.C07.sameAbs_normSq2",
    "SymmModel.C07.sameAbs_perm_magnitudes",
    "SymmModel.C07.fuseF_content",
    "SymmModel.C07.unfuseF_content",
    "SymmModel.C07.applyPlan_contentF",
    "SymmModel.C07.reshape_contentF",
    "SymmModel.C07.reshape_content_abelian",
    "SymmModel.C07.dense_of_unfused",
    "SymmModel.C07.planner_back_plan",
    "SymmModel.C07.reshape_back_is_unfuse",
    "SymmModel.C07.roundtrip_restores_view",
    "SymmModel.C07.reshape_roundtrip_fermionic_partial",
    "SymmModel.C07.reshape_roundtrip_fermionic_sizes_partial",
    "SymmModel.C07.reshape_roundtrip_abelian_partial",
    "SymmModel.C07.reshape_forward_elem_fermionic_partial",
    "SymmModel.C07.planner_back_plan_multi",
    "SymmModel.C07.reshape_back_plan",
    "SymmModel.C07.planner_no_unfuse",
    "SymmModel.C07.applyPlan_roundtrip_fermionic",
    "SymmModel.C07.applyPlan_roundtrip_abelian",
    "SymmModel.C07.reshape_roundtrip_fermionic",
    "SymmModel.C07.reshape_roundtrip_abelian",
    "SymmModel.C07.planner_forward_plan_runs",
    "SymmModel.C07.reshape_roundtrip_fermionic_runs",
    "SymmModel.C07.reshape_roundtrip_abelian_runs",
    "SymmModel.C07.callsOk_of_runs",
    "SymmModel.C07.planner_calls_ok",
    "SymmModel.C07.reshape_roundtrip_fermionic_general",
    "SymmModel.C07.reshape_roundtrip_abelian_general",
    "SymmModel.C07.reshape_roundtrip_fermionic_shapes",
    "SymmModel.C07.reshape_roundtrip_abelian_shapes",
    "SymmModel.C07.planner_total_items",
    "SymmModel.C07.reshape_roundtrip_fermionic_items",
    "SymmModel.C07.reshape_roundtrip_abelian_items",
    "SymmModel.C07.roundtrip_expansion_counterexample",
    "SymmModel.C07.mergeDrop_normalise",
    "SymmModel.C07.shapeS_pos",
    "SymmModel.C07.reshape_mergeDrop_roundtrip_fermionic",
    "SymmModel.C07.reshape_mergeDrop_roundtrip_abelian",
    "SymmModel.C07.reshape_self_plan_iff",
    "SymmModel.C07.reshape_self_unfuses",
    "SymmModel.C07.reshape_self_identity_fused",
    "SymmModel.C07.window_match_is_selfWin",
    "SymmModel.C07.reshape_forward_elem_fermionic_call",
    "SymmModel.C07.planner_subs_congr",
    "SymmModel.C07.planner_nowin_unfused",
    "SymmModel.C07.window_match_not_noWin",
    "SymmModel.C07.reshape_roundtrip_fermionic_fused_general",
    "SymmModel.C07.reshape_roundtrip_abelian_fused_general",
    "SymmModel.C07.reshape_roundtrip_fermionic_fused_items",
    "SymmModel.C07.reshape_roundtrip_abelian_fused_items",
    "SymmModel.C07.reshape_mergeDrop_roundtrip_fermionic_fused",
    "SymmModel.C07.reshape_mergeDrop_roundtrip_abelian_fused",
    "SymmModel.C07.roundtrip_fused_window_counterexample",
    "SymmModel.C07.planner_wf_nowin",
    "SymmModel.C07.reshape_content_fused",
    "SymmModel.C07.reshape_content_abelian_fused",
    "SymmModel.C07.reshape_forward_elem_fermionic_calls_partial",
    "SymmModel.C07.reshape_forward_elem_fermionic_items_partial",
    "SymmModel.C07.reshape_forward_elem_fermionic_calls",
    "SymmModel.C07.reshape_forward_elem_fermionic_items",
    "SymmModel.C07.reshape_forward_elem_fermionic_mergeDrop",
    "SymmModel.C07.planner_visits_congr",
    "SymmModel.C07.planner_vis_unfused",
    "SymmModel.C07.planner_window_exact",
    "SymmModel.C07.noWinVis_of_noWin",
    "SymmModel.C07.noWin_not_necessary",
    "SymmModel.C07.way_back_visits",
    "SymmModel.C07.noSelfWin_of_noWin",
    "SymmModel.C07.noSelfWin_iff_selfWin",
    "SymmModel.C07.roundtrip_counterexample_excluded",
    "SymmModel.C07.reshape_roundtrip_fermionic_fused_general_exact",
    "SymmModel.C07.reshape_roundtrip_abelian_fused_general_exact",
    "SymmModel.C07.reshape_roundtrip_fermionic_fused_items_exact",
    "SymmModel.C07.reshape_roundtrip_abelian_fused_items_exact",
    "SymmModel.C07.reshape_mergeDrop_roundtrip_fermionic_fused_exact",
    "SymmModel.C07.reshape_mergeDrop_roundtrip_abelian_fused_exact",
    "SymmModel.C07.reshape_forward_elem_abelian_calls",
    "SymmModel.C07.reshape_forward_elem_abelian_items",
    "SymmModel.C07.reshape_forward_elem_abelian_mergeDrop",
    "SymmModel.C07.reshape_stored_sector_has_source_abelian",
    "SymmModel.C07.fuse_stored_sector_has_source_abelian",
    "SymmModel.C07.reshape_block_not_all_zero_filled_abelian",
    "SymmModel.C07.reshape_stored_sector_has_source_fermionic",
    "SymmModel.C07.fuse_stored_sector_has_source_fermionic",
    "SymmModel.C07.reshape_block_not_all_zero_filled_fermionic"
]
LEAN_FILES = ["SymmModel.Model.ReshapePlan", "SymmModel.Model.Reshape", "SymmModel.Driver.ReshapeH", "SymmModel.Proofs.C07", "SymmModel.Proofs.C07T4", "SymmModel.Proofs.C07T5_1", "SymmModel.Proofs.C07T5_2", "SymmModel.Proofs.C07T5_3", "SymmModel.Proofs.C07T5_4", "SymmModel.Proofs.C07T5_6", "SymmModel.Props.C07", "SymmModel.Props.C07b", "SymmModel.Props.C07All", "SymmModel.Proofs.ReshapeMore", "SymmModel.Proofs.Reshape3a", "SymmModel.Proofs.Reshape3b", "SymmModel.Proofs.Reshape3c", "SymmModel.Proofs.Reshape3d", "SymmModel.Proofs.Reshape3e", "SymmModel.Proofs.Reshape3f", "SymmModel.Proofs.Reshape3g", "SymmModel.Proofs.Reshape3h", "SymmModel.Proofs.Reshape3i", "SymmModel.Proofs.Reshape3j", "SymmModel.Props.C07c", "SymmModel.Props.C07All2", "SymmModel.Proofs.Reshape4a", "SymmModel.Proofs.Reshape4b", "SymmModel.Proofs.Reshape4c", "SymmModel.Proofs.Reshape4d", "SymmModel.Proofs.Reshape4e", "SymmModel.Proofs.Reshape4f", "SymmModel.Proofs.Reshape4g", "SymmModel.Props.C07d", "SymmModel.Props.C07All3", "SymmModel.Proofs.Reshape5a", "SymmModel.Proofs.Reshape5b", "SymmModel.Proofs.Reshape5c", "SymmModel.Proofs.Reshape5d", "SymmModel.Proofs.Reshape5e", "SymmModel.Proofs.Reshape5f", "SymmModel.Proofs.Reshape5g", "SymmModel.Props.C07e", "SymmModel.Props.C07All4", "SymmModel.Proofs.Reshape6a", "SymmModel.Proofs.Reshape6b", "SymmModel.Proofs.Reshape6c", "SymmModel.Proofs.Reshape6d", "SymmModel.Proofs.Reshape6e", "SymmModel.Proofs.Reshape6f", "SymmModel.Props.C07f", "SymmModel.Props.C07All5", "SymmModel.Proofs.Reshape7a", "SymmModel.Proofs.Reshape7b", "SymmModel.Proofs.Reshape7c", "SymmModel.Props.C07g", "SymmModel.Props.C07All6", "SymmModel.Proofs.ReshapeHa", "SymmModel.Proofs.ReshapeHb", "SymmModel.Proofs.ReshapeHc", "SymmModel.Proofs.ReshapeHd", "SymmModel.Props.C07h", "SymmModel.Props.C07i", "SymmModel.Proofs.ReshapeIa", "SymmModel.Proofs.ReshapeIb", "SymmModel.Proofs.ReshapeIc", "SymmModel.Proofs.ReshapeId", "SymmModel.Proofs.ReshapeIe", "SymmModel.Proofs.ReshapeIf", "SymmModel.Proofs.ReshapeIg", "SymmModel.Proofs.ReshapeIh", "SymmModel.Props.C07j", "SymmModel.Proofs.ReshapeJa", "SymmModel.Proofs.ReshapeJb", "SymmModel.Proofs.ReshapeJc"]
RULE = (
    "planner: the whole stated domain on every run (exhaustive, both directions) plus a seeded "
    "random extension; arrays: random sparse abelian/fermionic arrays (<= 4 axes, block sizes "
    "<= 2) over all five symmetries x every merge/drop target of their shape, plus '-1' and "
    "inserted-size-one variants; a case is non-trivial when target != current shape and the "
    "array stores at least one block"
)
ANCHORS = {
    "abelian_core.py": [
        "calc_reshape_args", "reshape", "fuse", "_fuse_core", "unfuse", "expand_dims", "squeeze",
    ],
    "fermionic_core.py": ["fuse", "unfuse"],
    "interface.py": ["reshape"],
}
ASSUMPTIONS = [
    "autoray.lazy.core.find_full_reshape is modelled by its source (first -1 replaced by size // prod(others))",
    "newshape entries that are still negative after find_full_reshape are outside the model (never generated)",
    "the kernel-checked planner table speaks about symbolic (dense-product) shapes; sparse arrays, whose fused sizes shrink, are covered by the per-call certificate check (monitor) and the array stream",
]
PLANNED = ["round trip for fused inputs whose sub-sizes DO match a window the planner visits (= known finding reshape-fused-window-match", "excluded by the decidable, planner-exact conditions noWinVisB / noSelfWinB)", "restricting the way-back condition to the axes the way out keeps"]
TRUSTED_EXTRA = [
    "the Python enumeration of merge/drop targets equals the Lean enumeration `targets` (compared on every run for all 3 905 shapes)",
]

SIZES = (1, 2, 3, 4, 6)

# --------------------------------------------------------------------------- domain (python side)


def compositions(n):
    """all ways to cut range(n) into contiguous groups"""
    if n == 0:
        yield []
        return
    for cuts in itertools.product((0, 1), repeat=n - 1):
        groups, cur = [], [0]
        for i, c in enumerate(cuts):
            if c:
                groups.append(cur)
                cur = [i + 1]
            else:
                cur.append(i + 1)
        groups.append(cur)
        yield groups


def merge_drop_targets(shape):
    """every shape reachable by dropping size-one axes and/or merging adjacent axes"""
    out = set()
    ones = [i for i, d in enumerate(shape) if d == 1]
    for r in range(len(ones) + 1):
        for drop in itertools.combinations(ones, r):
            rest = [d for i, d in enumerate(shape) if i not in drop]
            for g in compositions(len(rest)):
                out.add(tuple(math.prod(rest[i] for i in grp) for grp in g))
    return out


def sym_exec(shape, subsizes, plan):
    """independent symbolic plan executor; returns list of (size, subsizes|None) or None when
    the plan is not executable (axis out of range, unfusing a plain axis, non-consecutive
    fuse groups)"""
    if len(shape) != len(subsizes):
        return None
    st = [(int(d), None if s is None else tuple(s)) for d, s in zip(shape, subsizes)]
    unf, fus, exp = plan
    for ax in unf:
        if not (0 <= ax < len(st)) or st[ax][1] is None:
            return None
        st = st[:ax] + [(q, None) for q in st[ax][1]] + st[ax + 1:]
    for groups in fus:
        flat = [a for g in groups for a in g]
        if not flat or not all(len(g) for g in groups):
            return None
        if flat != list(range(flat[0], flat[0] + len(flat))) or flat[-1] >= len(st):
            return None
        new = []
        for g in groups:
            if len(g) == 1:
                new.append(st[g[0]])
            else:
                sz = tuple(st[a][0] for a in g)
                new.append((math.prod(sz), sz))
        st = st[: flat[0]] + new + st[flat[-1] + 1:]
    for ax in exp:
        if not (0 <= ax <= len(st)):
            return None
        st = st[:ax] + [(1, None)] + st[ax:]
    return st


def _planner():
    from symmray import abelian_core

    f = abelian_core.calc_reshape_args
    return getattr(f, "__wrapped__", f)


def real_plan(f, shape, newshape, subsizes):
    try:
        r = f(tuple(shape), tuple(newshape), tuple(subsizes))
        return {"plan": [list(r[0]), [[list(g) for g in grp] for grp in r[1]], list(r[2])]}
    except Exception as e:  # noqa
        return {"raise": ser.exc_kind(e)}


def _jcase(shape, newshape, subsizes):
    return {
        "shape": list(shape),
        "newshape": list(newshape),
        "subsizes": [None if s is None else list(s) for s in subsizes],
    }


# --------------------------------------------------------------------------- stream (a)


def run_planner(ctx):
    f = _planner()
    fwd = []
    per_shape = []
    for n in range(1, 6):
        for shape in itertools.product(SIZES, repeat=n):
            ts = sorted(merge_drop_targets(shape))
            per_shape.append((shape, ts))
            for t in ts:
                fwd.append((shape, t, (None,) * n))
    ctx.stat("planner_shapes", len(per_shape))
    ctx.stat("planner_pairs", len(fwd))
    ctx.exhaustive = True

    calls, answers = [], []
    n_back = 0
    for shape, t, subs in fwd:
        r = real_plan(f, shape, t, subs)
        calls.append((shape, t, subs))
        answers.append(r)
        ctx.evaluations += 1
        if t != shape:
            ctx.mark_nontrivial(("planner", shape, t))
        case = {"stream": "planner", **_jcase(shape, t, subs)}
        if "raise" in r:
            trig = {"planner_raises"}
            if len(t) == 0:
                trig.add("empty_target_shape")
            ctx.violation(
                f"calc_reshape_args raises {r['raise']} on a merge/drop target", case,
                triggers=trig, op="reshape", detail=r,
            )
            continue
        st = sym_exec(shape, subs, r["plan"])
        if st is None or tuple(d for d, _ in st) != t:
            ctx.violation("plan does not produce the target shape", case,
                          triggers={"planner_wrong_plan"}, op="reshape", detail=r)
            continue
        # the trip back, from the symbolic result (merged axes carry their sub-sizes)
        bshape = tuple(d for d, _ in st)
        bsubs = tuple(s for _, s in st)
        rb = real_plan(f, bshape, shape, bsubs)
        calls.append((bshape, shape, bsubs))
        answers.append(rb)
        n_back += 1
        ctx.evaluations += 1
        bcase = {"stream": "planner-back", **_jcase(bshape, shape, bsubs)}
        if "raise" in rb:
            ctx.violation(f"calc_reshape_args raises {rb['raise']} on the trip back", bcase,
                          triggers={"planner_raises", "trip_back"}, op="reshape", detail=rb)
            continue
        st2 = sym_exec(bshape, bsubs, rb["plan"])
        if st2 is None or [d for d, _ in st2] != list(shape) or any(s is not None for _, s in st2):
            ctx.violation("plan of the trip back does not restore the shape", bcase,
                          triggers={"planner_wrong_plan", "trip_back"}, op="reshape", detail=rb)
    ctx.stat("planner_back_calls", n_back)

    # random extension: inserted size-one axes, fused inputs, mismatching requests
    rng = random.Random(ctx.seed * 7919 + 17)
    n_ext = 6000 if ctx.tier == "quick" else 60000
    ext = []
    for _ in range(n_ext):
        n = rng.randint(1, 5)
        shape = tuple(rng.choice(SIZES + (1, 8, 12)) for _ in range(n))
        subs = []
        for d in shape:
            if d > 1 and rng.random() < 0.3:
                facs = [q for q in (1, 2, 3, 4, 6) if d % q == 0]
                a = rng.choice(facs)
                sub = [a, d // a]
                if rng.random() < 0.3:
                    sub.insert(rng.randint(0, 2), 1)
                if rng.random() < 0.2:  # sparse: fused size smaller than the product
                    sub[rng.randrange(len(sub))] *= rng.choice((2, 3))
                subs.append(tuple(sub))
            else:
                subs.append(None)
        # target: unfuse some, merge/drop the rest, insert ones
        cur = []
        for d, s in zip(shape, subs):
            if s is not None and rng.random() < 0.5:
                cur.extend(s)
            else:
                cur.append(d)
        if rng.random() < 0.8:
            ts = sorted(merge_drop_targets(tuple(cur))) if len(cur) <= 6 else [tuple(cur)]
            t = list(rng.choice(ts))
        else:
            t = list(cur)
        for _ in range(rng.choice((0, 0, 1, 1, 2, 3))):
            t.insert(rng.randint(0, len(t)), 1)
        if rng.random() < 0.05 and t:
            t[rng.randrange(len(t))] = rng.choice(SIZES)
        ext.append((shape, tuple(t), tuple(subs)))
    ext_answers = []
    for shape, t, subs in ext:
        r = real_plan(f, shape, t, subs)
        ext_answers.append(r)
        ctx.evaluations += 1
        if "plan" in r:
            ctx.stat("planner_ext_ok")
            if r["plan"][2]:
                ctx.stat("planner_ext_with_expand")
            if len(r["plan"][0]) > 1:
                ctx.stat("planner_ext_multi_unfuse")
        else:
            ctx.stat("planner_ext_raise_" + r["raise"])
    calls += ext
    answers += ext_answers

    # model
    B = 400
    reqs = [
        {"id": f"pl{k}", "kind": "reshapeArgs", "cases": [_jcase(*c) for c in calls[k * B:(k + 1) * B]]}
        for k in range((len(calls) + B - 1) // B)
    ]
    BS = 300
    sreqs = [
        {"id": f"tg{k}", "kind": "targets", "shapes": [list(s) for s, _ in per_shape[k * BS:(k + 1) * BS]]}
        for k in range((len(per_shape) + BS - 1) // BS)
    ]
    out = ctx.model(reqs + sreqs)
    if out is None:
        return
    for r in out.values():
        if "bad" in r:
            ctx.correspondence_broken("lean-driver(reshapeArgs)", str(r)[:300])
            return
    ndiff = 0
    for k in range(len(reqs)):
        for c, a, m in zip(calls[k * B:(k + 1) * B], answers[k * B:(k + 1) * B], out[f"pl{k}"]["results"]):
            if a != m:
                ndiff += 1
                ctx.disagreements_checked += 1
                if ndiff <= 3:
                    # direct oracle on the real answer: is the real plan a correct plan?
                    ok = False
                    if "plan" in a:
                        st = sym_exec(c[0], c[2], a["plan"])
                        ok = st is not None and tuple(d for d, _ in st) == tuple(c[1])
                    detail = dict(call=_jcase(*c), real=a, model=m, real_plan_reaches_target=ok)
                    if "plan" in a and not ok and "plan" in m:
                        ctx.violation("planner returns a plan that does not produce the requested shape",
                                      {"stream": "planner-ext", **_jcase(*c)},
                                      triggers={"planner_wrong_plan"}, op="reshape", detail=detail)
                    else:
                        ctx.correspondence_broken("planner: calc_reshape_args != calcReshapeArgs", json.dumps(detail))
    ctx.stat("planner_model_diffs", ndiff)
    # domain enumeration agreement
    for k in range(len(sreqs)):
        for (shape, ts), m in zip(per_shape[k * BS:(k + 1) * BS], out[f"tg{k}"]["results"]):
            if sorted(tuple(t) for t in m) != ts:
                ctx.correspondence_broken(
                    "domain: Lean `targets` != python merge/drop enumeration",
                    json.dumps(dict(shape=shape, lean=m, python=ts)))
                return
    ctx.sample({"stream": "planner", "call": _jcase(*calls[1234]), "real": answers[1234]})


# --------------------------------------------------------------------------- stream (b)/(c)


def _rand_axis(rng, sym, kind):
    import symmray as sr

    pool = gen.charge_pool(sym)
    zero = gen.py_combine(sym, [])
    if sym in ("Z2Z2", "U1U1"):
        zero = (0, 0)
    if kind == "one0":
        return sr.BlockIndex({zero: 1}, dual=rng.random() < 0.5)
    if kind == "one1":
        nz = [c for c in pool if c != zero]
        return sr.BlockIndex({rng.choice(nz): 1}, dual=rng.random() < 0.5)
    return gen.rand_index(rng, sym, max_charges=rng.choice((2, 2, 3)), max_size=2)


def make_array(rng, sym, fermi, flavor):
    """flavor: plain | ones | fused | witness"""
    static = sym != "Z4" and rng.random() < 0.7
    dtype = "complex128" if rng.random() < 0.15 else "float64"
    keep = rng.choice((0.35, 0.6, 1.0))
    pending = fermi and rng.random() < 0.6
    if flavor == "fused":
        n0 = rng.randint(2, 5)
    else:
        n0 = rng.randint(1, 4)
    kinds = []
    for _ in range(n0):
        r = rng.random()
        if flavor == "plain":
            kinds.append("big")
        else:
            kinds.append("one0" if r < 0.2 else "one1" if r < 0.4 else "big")
    if all(k != "big" for k in kinds) and rng.random() < 0.7:
        kinds[rng.randrange(n0)] = "big"
    indices = [_rand_axis(rng, sym, k) for k in kinds]
    x = gen.rand_array(rng, sym, indices=indices, fermi=fermi, static=static, dtype=dtype,
                       keep=keep, pending=pending, min_blocks=1)
    if flavor == "fused" and x.blocks:
        # fuse one or two groups of adjacent axes (the array then carries fused, possibly
        # shrunk, axes); keep at most 4 axes
        comps = [g for g in compositions(n0) if any(len(q) > 1 for q in g) and len(g) <= 4]
        if comps:
            g = rng.choice(comps)
            groups = [tuple(q) for q in g if len(q) > 1]
            if len(groups) > 2:
                groups = rng.sample(groups, 2)
                groups.sort()
            x = x.fuse(*groups)
            if pending:
                gen.add_pending(rng, x)
    return x


def witness_self_reshape():
    """fused axis of size 4 whose sub-sizes (4, 2) prefix-match the shape (4, 2)"""
    import numpy as np
    import symmray as sr

    a = sr.BlockIndex({0: 2, 1: 2}, dual=False)
    b = sr.BlockIndex({0: 1, 1: 1}, dual=False)
    c = sr.BlockIndex({0: 1, 1: 1}, dual=True)
    blocks = {
        (0, 0, 0): np.array([1.0, 2.0]).reshape(2, 1, 1),
        (1, 1, 0): np.array([3.0, -1.0]).reshape(2, 1, 1),
    }
    x = sr.Z2Array(indices=(a, b, c), charge=0, blocks=blocks)
    return x.fuse((0, 1))


def subsizes_of(x):
    return tuple(
        None if ix.subinfo is None else tuple(s.size_total for s in ix.subinfo.indices)
        for ix in x.indices
    )


def window_match(x, target):
    """some fused axis whose sub-sizes occur as a contiguous window of `target`: the planner
    then prefers unfusing that axis to keeping it (known finding)"""
    t = tuple(target)
    for s in subsizes_of(x):
        if s is None:
            continue
        n = len(s)
        if any(t[j:j + n] == tuple(s) for j in range(len(t) - n + 1)):
            return True
    return False


def merged_axes(ndim, plan):
    """positions (in the result) of the axes created by multi-axis fuse groups of a plan
    without unfuse steps"""
    cur = [False] * ndim
    for groups in plan[1]:
        flat = [a for g in groups for a in g]
        if not flat or flat[-1] >= len(cur):
            return None
        new = [cur[g[0]] if len(g) == 1 else True for g in groups]
        cur = cur[: flat[0]] + new + cur[flat[-1] + 1:]
    for ax in plan[2]:
        cur = cur[:ax] + [False] + cur[ax:]
    return {i for i, f in enumerate(cur) if f}


def unfused_axes(subsizes, plan):
    """original positions of the axes a plan unfuses"""
    cur = list(range(len(subsizes)))
    out = set()
    for ax in plan[0]:
        if not (0 <= ax < len(cur)) or cur[ax] is None or subsizes[cur[ax]] is None:
            return None
        out.add(cur[ax])
        cur = cur[:ax] + [None] * len(subsizes[cur[ax]]) + cur[ax + 1:]
    return out


def exact_norm2(x):
    tot = 0
    for b in x.blocks.values():
        for v in b.reshape(-1).tolist():
            v = complex(v)
            tot += int(round(v.real)) ** 2 + int(round(v.imag)) ** 2
    return tot


def magnitudes(x):
    c = Counter()
    for b in x.blocks.values():
        for v in b.reshape(-1).tolist():
            v = complex(v)
            m = int(round(v.real)) ** 2 + int(round(v.imag)) ** 2
            if m:
                c[m] += 1
    return c


def canon(x, **kw):
    return ser.canon_array(ser.enc_array(x), **kw)


def with_ones(rng, t, k):
    t = list(t)
    pos = []
    for _ in range(k):
        p = rng.randint(0, len(t))
        t.insert(p, 1)
        pos = [q + 1 if q >= p else q for q in pos] + [p]
    return tuple(t), sorted(pos)


def oracle_expanded_axes(x, y, target):
    """when `target` is the current shape with size-one axes inserted and nothing else, the
    inserted axes must be neutral: size one, zero charge, direction of the left neighbour
    (right neighbour when left-most)"""
    sym = ser.sym_name(x.symmetry)
    zero = (0, 0) if sym in ("Z2Z2", "U1U1") else 0
    # align: walk both shapes
    i = 0
    errs = []
    for j, d in enumerate(target):
        if i < x.ndim and x.shape[i] == d:
            i += 1
            continue
        if d != 1:
            return []  # not a pure insertion
        ix = y.indices[j]
        if ix.size_total != 1 or list(ix.chargemap) != [zero]:
            errs.append(f"inserted axis {j} is not a zero-charge singleton: {ix}")
        want = y.indices[j - 1].dual if j > 0 else (y.indices[1].dual if y.ndim > 1 else False)
        if ix.dual != want:
            errs.append(f"inserted axis {j} has dual={ix.dual}, neighbour has {want}")
    if i != x.ndim:
        return []
    return errs


def array_chunk(seed, chunk, n_arrays, tier):
    """worker: generate arrays, run the real code, evaluate the direct oracles, build the model
    cases.  Returns a picklable dict."""
    import symmray.abelian_core as ac

    rng = random.Random(seed * 1000003 + chunk)
    log = []
    orig = ac.calc_reshape_args

    def recorder(shape, newshape, subsizes):
        try:
            r = orig(shape, newshape, subsizes)
        except Exception as e:  # noqa
            log.append((shape, newshape, subsizes, {"raise": ser.exc_kind(e)}))
            raise
        log.append((shape, newshape, subsizes,
                    {"plan": [list(r[0]), [[list(g) for g in grp] for grp in r[1]], list(r[2])]}))
        return r

    ac.calc_reshape_args = recorder
    cases, reals, fails, stats, samples = [], [], [], Counter(), []
    nontrivial = []
    tags = {}
    try:
        for a_i in range(n_arrays):
            sym = gen.SYMS[(a_i + chunk) % len(gen.SYMS)]
            fermi = rng.random() < 0.5
            flavor = rng.choice(("plain", "ones", "ones", "fused", "fused"))
            if chunk == 0 and a_i == 0:
                x, sym, fermi, flavor = witness_self_reshape(), "Z2", False, "witness"
            else:
                try:
                    x = make_array(rng, sym, fermi, flavor)
                except Exception as e:  # generator infrastructure, not the property
                    stats["gen_failed_" + type(e).__name__] += 1
                    continue
            if x.ndim == 0 or x.ndim > 4:
                stats["gen_skipped_ndim"] += 1
                continue
            shape = tuple(x.shape)
            stats[f"arr_{'fermi' if fermi else 'abel'}_{flavor}"] += 1
            stats[f"arr_sym_{sym}"] += 1
            if any(s is not None for s in subsizes_of(x)):
                stats["arr_with_fused_axis"] += 1
                if math.prod(shape) < math.prod(math.prod(s) if s else d for d, s in zip(shape, subsizes_of(x))):
                    stats["arr_with_shrunk_fused_axis"] += 1
            if fermi and x.phases:
                stats["arr_with_pending_signs"] += 1
            zero = (0, 0) if sym in ("Z2Z2", "U1U1") else 0
            if any(ix.size_total == 1 and list(ix.chargemap) != [zero] for ix in x.indices):
                stats["arr_with_charged_singleton"] += 1
            tset = sorted(merge_drop_targets(shape))
            targets = []
            for t in tset:
                if len(t) == 0:
                    targets.append((t, "empty", None))
                elif t == shape:
                    targets.append((t, "self", None))
                else:
                    targets.append((t, "merge", None))
            # '-1' variants and inserted size-one axes
            extra = []
            for t in tset:
                if len(t) and rng.random() < 0.25:
                    p = rng.randrange(len(t))
                    if math.prod(t[:p] + t[p + 1:]) != 0:
                        extra.append((t[:p] + (-1,) + t[p + 1:], "minus1", t))
                if len(t) and rng.random() < 0.35:
                    t2, _ = with_ones(rng, t, rng.choice((1, 1, 2, 3)))
                    extra.append((t2, "ones", None))
            targets += extra
            xenc = ser.enc_val(x)
            xcanon = canon(x)
            xn2, xmag = exact_norm2(x), magnitudes(x)
            for (t, fam, full) in targets:
                entry = ("method", "function", "autoray")[rng.randrange(3)]
                want = full if full is not None else t
                steps = [
                    {"out": ["y"], "op": "reshape", "in": ["x"], "params": {"newshape": list(t)}},
                    {"out": ["z"], "op": "reshape", "in": ["y"], "params": {"newshape": list(shape)}},
                ]
                n0 = len(log)
                res, env = impl.run_prog({"x": x}, steps, entry=entry)
                plans = [r.get("plan") for (_, _, _, r) in log[n0:]]
                fwd_plan = plans[0] if plans else None
                back_plan = plans[1] if len(plans) > 1 else None
                planner_raised = any("raise" in r for (_, _, _, r) in log[n0:])
                stats[f"target_{fam}"] += 1
                stats[f"entry_{entry}"] += 1
                cid = f"a{chunk}_{a_i}_{len(cases)}"
                meta = dict(sym=sym, fermi=fermi, flavor=flavor, shape=list(shape), target=list(t),
                            family=fam, entry=entry, subsizes=[None if s is None else list(s) for s in subsizes_of(x)])
                case = {"id": cid, "kind": "prog", "env": {"x": xenc}, "steps": steps}
                cases.append(case)
                obs = []
                for r in res:
                    if "ok" in r:
                        obs.append(("ok", ser.canon_val(r["ok"][0])))
                    elif "raise" in r:
                        obs.append(("raise", r["raise"], r.get("msg")))
                    else:
                        obs.append(("skipped",))
                reals.append((cid, meta, obs))
                if fam in ("merge", "ones", "minus1") and x.blocks:
                    nontrivial.append((sym, fermi, tuple(shape), tuple(t), xcanon[4][:1]))
                # ---------------- direct oracles on the real code
                trig = {fam}
                if fam == "empty":
                    trig = {"empty_target_shape"}
                # no target generated here needs an unfuse on the way out, and the way back has to
                # unfuse exactly the axes merged on the way out
                spurious = bool(fwd_plan and fwd_plan[0])
                if fwd_plan and back_plan and not fwd_plan[0] and "y" in env:
                    spurious = unfused_axes(subsizes_of(env["y"]), back_plan) != merged_axes(x.ndim, fwd_plan)
                if (spurious or planner_raised) and (window_match(x, want) or window_match(x, shape)):
                    trig.add("fused_subsizes_window_match")
                for q in range(n0, len(log)):
                    tags[q] = (meta, sorted(trig), q - n0)
                if "raise" in res[0]:
                    fails.append(("reshape raises " + res[0]["raise"] + " on a reachable target",
                                  meta, sorted(trig | {"raises"}), res[0].get("msg")))
                    continue
                y = env["y"]
                errs = []
                if y.ndim != len(want):
                    errs.append(f"ndim {y.ndim} != requested {len(want)}")
                elif any(a > b for a, b in zip(y.shape, want)):
                    errs.append(f"shape {y.shape} exceeds requested {want}")
                if exact_norm2(y) != xn2:
                    errs.append("norm changed")
                if magnitudes(y) != xmag:
                    errs.append("multiset of stored magnitudes changed")
                if fam == "self" and canon(y) != xcanon:
                    errs.append("reshape to the current shape is not the identity")
                if fam == "ones" and fwd_plan and not fwd_plan[0] and not fwd_plan[1]:
                    errs += oracle_expanded_axes(x, y, want)
                if "raise" in res[1]:
                    errs.append("reshape back raises " + res[1]["raise"] + ": " + str(res[1].get("msg")))
                elif "ok" in res[1]:
                    z = env["z"]
                    if fam in ("merge", "self", "minus1"):
                        if canon(z) != xcanon:
                            errs.append("there-and-back does not restore the original exactly")
                    else:
                        # inserted axes come back fused into a neighbour: values only
                        # (a fuse keeps only the charges that are stored, so sizes may shrink)
                        if z.ndim != len(shape) or any(a > b for a, b in zip(z.shape, shape)):
                            errs.append(f"there-and-back shape {z.shape} exceeds {shape}")
                        elif canon(z, tables=False) != canon(x, tables=False):
                            errs.append("there-and-back changes the stored values")
                if errs:
                    fails.append(("; ".join(errs), meta, sorted(trig), None))
                elif fam == "merge" and "ok" in res[1] and rng.random() < 0.35 and \
                        not (window_match(x, want) or window_match(x, shape)):
                    # call history: the conjugate of x, taken AFTER x itself went through reshape (index
                    # objects and cached plans derive from ones already seen), makes the same trip
                    try:
                        xc = x.conj()
                        xcc = canon(xc)
                        yc = xc.reshape(t)
                        zc = yc.reshape(shape)
                        stats["conj_history_trips"] += 1
                        e2 = []
                        if yc.ndim != len(want) or any(a > b for a, b in zip(yc.shape, want)):
                            e2.append(f"shape {yc.shape} vs requested {want}")
                        if exact_norm2(yc) != exact_norm2(xc) or magnitudes(yc) != magnitudes(xc):
                            e2.append("content changed")
                        if canon(zc) != xcc:
                            e2.append("there-and-back does not restore the original exactly")
                        if oracle.py_valid(yc):
                            e2.append("reshaped array invalid: " + str(oracle.py_valid(yc)))
                        if e2:
                            fails.append(("reshape of x.conj() after x itself was reshaped: " + "; ".join(e2),
                                          dict(meta, history="conj-after-reshape"), sorted(trig), None))
                    except Exception as e:  # noqa
                        fails.append((f"reshape of x.conj() after x itself was reshaped raises {type(e).__name__}: {e}",
                                      dict(meta, history="conj-after-reshape"), sorted(trig | {"raises"}), None))
                if not errs and fam == "merge" and "ok" in res[1] and rng.random() < 0.3 and \
                        not (window_match(x, want) or window_match(x, shape)):
                    # the same trip with inplace=True must produce, in place, exactly what the out-of-place trip returns
                    try:
                        w = x.copy()
                        r1 = w.reshape(t, inplace=True)
                        ok1 = canon(w) == canon(env["y"]) and (r1 is w or r1 is None or canon(r1) == canon(env["y"]))
                        w.reshape(shape, inplace=True)
                        stats["inplace_trips"] += 1
                        if not ok1:
                            fails.append(("reshape(inplace=True) differs from the out-of-place result",
                                          dict(meta, history="inplace"), sorted(trig), None))
                        elif canon(w) != canon(env["z"]) or canon(w) != xcanon:
                            fails.append(("reshape there and back with inplace=True does not restore the original exactly "
                                          "(differs from the out-of-place trip)", dict(meta, history="inplace"), sorted(trig), None))
                    except Exception as e:  # noqa
                        fails.append((f"reshape(inplace=True) raises {type(e).__name__}: {e}",
                                      dict(meta, history="inplace"), sorted(trig | {"raises"}), None))
                if len(samples) < 2 and fam == "merge":
                    samples.append(meta)
    finally:
        ac.calc_reshape_args = orig
    return dict(cases=cases, reals=reals, fails=fails, stats=dict(stats), samples=samples,
                log=[(list(a), list(b), [None if s is None else list(s) for s in c], r, tags.get(q))
                     for q, (a, b, c, r) in enumerate(log)],
                nontrivial=nontrivial)


def run_arrays(ctx):
    n_arr = 2000 if ctx.tier == "quick" else 20000
    nchunks = 16
    per = (n_arr + nchunks - 1) // nchunks
    outs = ctx.pmap("harness.props.c07", "array_chunk",
                    [(ctx.seed, k, per, ctx.tier) for k in range(nchunks)])
    cases, reals, fails, log = [], [], [], []
    for o in outs:
        cases += o["cases"]
        reals += o["reals"]
        fails += o["fails"]
        log += o["log"]
        for k, v in o["stats"].items():
            ctx.stat(k, v)
        for s in o["samples"]:
            ctx.sample({"stream": "arrays", **s})
        for key in o["nontrivial"]:
            ctx.mark_nontrivial(key)
    ctx.evaluations += len(cases)
    case_by_id = {c["id"]: c for c in cases}

    # direct-oracle failures first (they do not need the model); smallest case per class
    seen = {}
    for what, meta, trig, msg in fails:
        key = (what.split(":")[0][:60], tuple(trig))
        size = (len(meta["shape"]), math.prod(meta["shape"]), len(meta["target"]))
        if key not in seen or size < seen[key][0]:
            seen[key] = (size, what, meta, trig, msg)
    for size, what, meta, trig, msg in seen.values():
        ctx.violation(what, {"stream": "arrays", **meta}, triggers=trig, op="reshape", detail=msg)
    failing_ids = set()
    for what, meta, trig, msg in fails:
        failing_ids.add(json.dumps(meta, sort_keys=True))

    # model
    out = ctx.model(cases)
    if out is not None:
        ndiff = 0
        for cid, meta, obs in reals:
            m = out[cid]
            if "bad" in m:
                ctx.correspondence_broken("lean-driver(prog reshape)", str(m)[:300])
                break
            mobs = []
            for r in m["results"]:
                if "ok" in r:
                    mobs.append(("ok", ser.canon_val(r["ok"][0])))
                elif "raise" in r:
                    mobs.append(("raise", r["raise"]))
                else:
                    mobs.append(("skipped",))
            robs = [o[:2] for o in obs]
            if robs != mobs:
                ndiff += 1
                ctx.disagreements_checked += 1
                if json.dumps(meta, sort_keys=True) in failing_ids:
                    continue  # already confirmed by a direct oracle
                if ndiff <= 3:
                    which = next(i for i, (a, b) in enumerate(zip(robs, mobs)) if a != b)
                    ctx.correspondence_broken(
                        "arrays: reshape result differs from the Lean model (direct oracles hold)",
                        json.dumps(dict(meta=meta, step=which,
                                        real=str(robs[which])[:600], model=str(mobs[which])[:600])))
        ctx.stat("array_model_diffs", ndiff)

    # (c) monitor: certificate check of every plan the real planner produced
    uniq = {}
    for shape, newshape, subs, r, tag in log:
        uniq.setdefault(json.dumps([shape, newshape, subs]), (shape, newshape, subs, r, tag))
    mon = [v for v in uniq.values() if "plan" in v[3]]
    ctx.stat("monitor_distinct_planner_calls", len(uniq))
    ctx.stat("monitor_outside_table",
             sum(1 for s, n, sub, _, _ in mon
                 if any(q is not None for q in sub) or any(d not in SIZES for d in s) or len(s) > 5))
    B = 300
    reqs = [
        {"id": f"wf{k}", "kind": "planWf",
         "cases": [dict(shape=s, newshape=n, subsizes=sub, plan=r["plan"]) for s, n, sub, r, _ in mon[k * B:(k + 1) * B]]}
        for k in range((len(mon) + B - 1) // B)
    ]
    wout = ctx.model(reqs) if reqs else {}
    for k in range(len(reqs)):
        if wout is None:
            break
        m = wout[f"wf{k}"]
        if "bad" in m:
            ctx.correspondence_broken("lean-driver(planWf)", str(m)[:300])
            break
        for (s, n, sub, r, tag), w in zip(mon[k * B:(k + 1) * B], m["results"]):
            ctx.monitors += 1
            if not w["wf"]:
                ctx.disagreements_checked += 1
                st = sym_exec(s, sub, r["plan"])
                ok = st is not None and [d for d, _ in st] == list(n)
                case = {"stream": "monitor", "shape": s, "newshape": n, "subsizes": sub, "plan": r["plan"],
                        "from_array_case": tag[0] if tag else None, "leg": tag[2] if tag else None}
                if ok:
                    ctx.correspondence_broken("monitor: Plan.wfB rejects a plan the python executor accepts",
                                              json.dumps(case))
                else:
                    trig = {"planner_wrong_plan"} | set(tag[1] if tag else ())
                    ctx.violation("the planner's plan does not produce the requested shape (certificate fails)",
                                  case, triggers=trig, op="reshape", detail=w)
    if wout is None or out is None:
        # Lean unavailable: python certificate on every recorded plan
        for s, n, sub, r, tag in mon:
            st = sym_exec(s, sub, r["plan"])
            if st is None or [d for d, _ in st] != list(n):
                ctx.violation("the planner's plan does not produce the requested shape",
                              {"stream": "monitor", "shape": s, "newshape": n, "subsizes": sub, "plan": r["plan"],
                               "from_array_case": tag[0] if tag else None},
                              triggers={"planner_wrong_plan"} | set(tag[1] if tag else ()), op="reshape")


def run(ctx):
    run_planner(ctx)
    run_arrays(ctx)


def replay(ctx, payload):
    """re-run one recorded planner call or array case description"""
    import sys

    case = payload.get("case", {})
    print(json.dumps(case, indent=1))
    if case.get("stream", "").startswith("planner") or case.get("stream") == "monitor":
        f = _planner()
        r = real_plan(f, case["shape"], case["newshape"],
                      [None if s is None else tuple(s) for s in case["subsizes"]])
        print("real planner:", r)
        if "plan" in r:
            print("symbolic result:", sym_exec(case["shape"], case["subsizes"], r["plan"]))
        return 0
    print("array cases are regenerated from (seed, tier): run the check with the recorded seed",
          file=sys.stderr)
    return 0
