"""C16 — All ways of building an array agree, and dense conversion round-trips."""

import random
import warnings

import numpy as np

from .. import gen, impl, oracle, ser, stream

ID = "C16"
LEVEL = "proof"
PROPS_MODULE = "SymmModel.Props.C16All"
THEOREMS = [
    "SymmModel.C16.classSymmetry_spec",
    "SymmModel.C16.classSymmetry_static_none",
    "SymmModel.C16.classSymmetry_static_same",
    "SymmModel.C16.classSymmetry_static_other",
    "SymmModel.C16.classSymmetry_generic_none",
    "SymmModel.C16.classSymmetry_generic_some",
    "SymmModel.C16.classSymmetry_static_eq_generic",
    "SymmModel.C16.construct_spec",
    "SymmModel.C16.construct_charge_default",
    "SymmModel.C16.construct_charge",
    "SymmModel.C16.construct_first_sector",
    "SymmModel.C16.construct_error_iff",
    "SymmModel.C16.fromBlocks_eq_construct",
    "SymmModel.C16.fromBlocks_nil",
    "SymmModel.C16.fromBlocks_indices",
    "SymmModel.C16.fromBlocks_error_iff",
    "SymmModel.C16.fromBlocks_agrees_with_construct",
    "SymmModel.C16.fromBlocks_of_array",
    "SymmModel.C16.fromFillFn_blocks",
    "SymmModel.C16.fromFillFn_agrees_with_construct",
    "SymmModel.C16.fromDense_eq_construct",
    "SymmModel.C16.fromDense_indices",
    "SymmModel.C16.chargeGroups_spec",
    "SymmModel.C16.fromDense_blocks",
    "SymmModel.C16.toDense_fromDense",
    "SymmModel.C16.origPos_stable_sort",
    "SymmModel.C16.origAll_eq",
    "SymmModel.C16.fromDense_toDense",
    "SymmModel.C16.fromDense_toDense_of_valid",
    "SymmModel.C16.labelsOf_spec",
    "SymmModel.C16.fromFillFn_toDense",
    "SymmModel.C16.zeros_toDense",
    "SymmModel.C16.const_toDense",
    "SymmModel.C16.fromDense_error_indep",
    "SymmModel.C16.fromDense_ignores_invalid",
    "SymmModel.C16.fromDense_lossless_iff",
    "SymmModel.C16.randIndex_unsupported",
    "SymmModel.C16.randZ2Z2Index_wf",
    "SymmModel.C16.randU1Index_wf",
    "SymmModel.C16.randU1U1Index_wf",
    "SymmModel.C16.randIndex_explicit_wf",
    "SymmModel.C16.randIndex_explicit_zero_counterexample",
    "SymmModel.C16.randZ2Index_explicit_d1_ignored",
    "SymmModel.C16.randZ2Z2Index_explicit_truncates",
    "SymmModel.C16.randZ2Index_explicit_unpack",
    "SymmModel.C16.randZ2Z2Index_dict_type_error",
    "SymmModel.C16.randPartition_parts",
    "SymmModel.C16.randPartition_last_ge_two",
    "SymmModel.C16.randPartition_error",
    "SymmModel.C16.chargeSequences_spec",
    "SymmModel.C16.chooseDuals_spec",
    "SymmModel.C16.fillDtype_eq",
    "SymmModel.C16.randBlockSizes_spec",
    "SymmModel.C16.getRand_valid",
    "SymmModel.C16.randIndex_wf",
    "SymmModel.C16.randZ2Index_wf",
    "SymmModel.C16.randZ2Index_minimal_single_charge"
]
LEAN_FILES = ["SymmModel.Props.C16", "SymmModel.Proofs.DenseLemmas", "SymmModel.Props.C16b", "SymmModel.Props.C16All", "SymmModel.Proofs.Dense3c", "SymmModel.Props.C16c", "SymmModel.Proofs.RandLemmas", "SymmModel.Model.Rand"]
PLANNED = []
RULE = ("random tensors described four ways (direct constructor, from_blocks, from_dense with per-axis charge "
        "labels, from_fill_fn) on fixed-symmetry and generic classes, abelian and fermionic, every combination of "
        "omitted optional arguments (charge, symmetry), wrong symmetry argument; dense arrays with unsorted, "
        "interleaved charge labels -> from_dense -> to_dense equals the projection onto charge-conserving positions "
        "reordered (stably) by charge; to_dense -> from_dense with matching labels is the identity. non-trivial: "
        "unsorted labels or an omitted optional argument"
        '; dict labellings with shuffled insertion order')
ANCHORS = {"abelian_core.py": ["__init__", "get_class_symmetry", "from_fill_fn", "from_blocks", "from_dense",
                               "to_dense"],
           "fermionic_core.py": ["__init__", "oddpos_parse", "to_dense"],
           "utils.py": ["get_random_fill_fn", "rand_z2_index", "rand_partition", "rand_z2z2_index", "get_u1_charges",
                        "rand_u1_index", "get_u1u1_charges", "rand_u1u1_index", "choose_duals", "get_rand_z2array",
                        "get_rand_z2z2array", "get_rand_u1array", "get_rand_u1u1array", "get_rand",
                        "get_rand_blockvector", "rand_index", "from_dense"]}
ASSUMPTIONS = ["utils.py generators: every draw from the numpy Generator enters the model as a parameter (recorded on the "
               "real run and replayed); int(n**0.5) is modelled by Nat.sqrt (compared for n < 20000)"]


def _cls(sym, fermi, static):
    return gen.array_class(sym, fermi, static)


def _enc_blocks(blocks):
    return [dict(sector=ser.enc_sector(s), **ser.enc_block(b)) for s, b in blocks.items()]


def _val(x, **kw):
    return ser.canon_array(ser.enc_array(x), **kw)


def gen_cases(seed, chunk, n, tier):
    import symmray as sr

    rng = random.Random(seed * 7919 + chunk * 104729 + 16)
    out = []
    for _ in range(n):
        sym = rng.choice(gen.SYMS)
        fermi = rng.random() < 0.4
        static = rng.random() < 0.6 and sym != "Z4"
        dtype = rng.choice(["float64", "complex128", "float32"])
        kind = rng.choice(["dense", "dense", "blocks", "ctor", "fill", "roundtrip", "symarg"])
        cls, kw = _cls(sym, fermi, static)
        meta = dict(sym=sym, fermi=fermi, static=static, kind=kind)
        orc = None
        env = {}
        nontrivial = False
        common = {"fermi": fermi}
        if static:
            common["static"] = sym
        pass_sym = (not static) or rng.random() < 0.3
        if pass_sym:
            common["symmetry"] = sym
        pykw = {"symmetry": sym} if pass_sym else {}
        meta["pass_sym"] = pass_sym
        if kind == "dense":
            nd = rng.randint(1, 3)
            pool = gen.charge_pool(sym)
            maps = []
            shape = []
            for _a in range(nd):
                d = rng.randint(1, 5)
                cs = rng.sample(pool, rng.randint(1, min(3, len(pool))))
                maps.append([rng.choice(cs) for _ in range(d)])
                shape.append(d)
            duals = [rng.random() < 0.5 for _ in range(nd)]
            dense = gen.rand_block(rng, tuple(shape), dtype)
            # total charge: that of a random position (so something survives), or omitted when identity
            pos = [rng.randrange(d) for d in shape]
            charge = gen.py_sector_charge(sym, [maps[i][pos[i]] for i in range(nd)], duals)
            if fermi and gen.py_parity(sym, charge):
                # keep it even for fermionic from_dense unless a label is given
                oddpos = [[rng.randint(1, 9), False]]
            else:
                oddpos = []
            omit_charge = charge == gen.py_combine(sym, []) and rng.random() < 0.5
            p = dict(common, maps=[[ser.enc_charge(c) for c in m] for m in maps], duals=duals)
            if not omit_charge:
                p["charge"] = ser.enc_charge(charge)
            if oddpos:
                p["oddpos"] = oddpos
            steps = [{"out": ["x"], "op": "from_dense", "in": ["d"], "params": p},
                     {"out": ["y"], "op": "to_dense", "in": ["x"], "params": {}}]
            env = {"d": dense}
            res = []
            try:
                with warnings.catch_warnings():
                    warnings.simplefilter("ignore")
                    kk = dict(pykw)
                    if not omit_charge:
                        kk["charge"] = charge
                    if oddpos:
                        kk["oddpos"] = oddpos[0][0]
                    def _as_map(m):
                        r = rng.random()
                        if r < 0.35:
                            return list(m)
                        items = list(enumerate(m))
                        if r < 0.7:
                            rng.shuffle(items)  # a dict labelling whose insertion order is not ascending
                        return dict(items)
                    x = cls.from_dense(dense, [_as_map(m) for m in maps], duals, invalid_sectors="ignore", **kk)
                res.append({"ok": [ser.enc_val(x)]})
                y = x.to_dense()
                res.append({"ok": [ser.enc_val(y)]})
                # oracle: projection + stable reorder by charge
                proj = np.array(dense, dtype="complex128")
                for idx in np.ndindex(*shape):
                    if gen.py_sector_charge(sym, [maps[i][idx[i]] for i in range(nd)], duals) != charge:
                        proj[idx] = 0
                for ax in range(nd):
                    order = sorted(range(shape[ax]), key=lambda q: (maps[ax][q], q))
                    proj = np.take(proj, order, axis=ax)
                if not np.array_equal(np.asarray(y, dtype="complex128"), proj):
                    orc = "to_dense(from_dense(d)) is not the charge-conserving projection reordered by charge"
                elif str(np.asarray(y).dtype) != dtype:
                    orc = f"dense round trip changed dtype {dtype} -> {np.asarray(y).dtype}"
            except Exception as e:  # noqa
                res.append({"raise": ser.exc_kind(e), "msg": f"{type(e).__name__}: {e}"})
                orc = f"from_dense/to_dense raised {type(e).__name__}: {e}"
            nontrivial = any(m != sorted(m) for m in maps) or omit_charge or not pass_sym
            meta.update(omit_charge=omit_charge)
        else:
            x0 = gen.rand_array(rng, sym, ndim=rng.randint(1, 3), fermi=fermi, static=static, dtype=dtype,
                                keep=1.0 if kind in ("blocks", "fill") else rng.choice([0.6, 1.0]))
            charge = x0.charge
            if kind == "fill" and rng.random() < 0.15:
                # rank 0: the only candidate sector () conserves the charge only if the total charge is the identity
                ch0 = rng.choice(gen.charge_pool(sym))
                cls0, kw0 = _cls(sym, fermi, static)
                x0 = cls0(indices=(), charge=ch0, blocks={}, **kw0,
                          **({"oddpos": rng.randint(1, 9)} if (fermi and gen.py_parity(sym, ch0)) else {}))
                charge = ch0
                meta["rank0"] = True
            odd = bool(fermi and gen.py_parity(sym, charge))
            oddpos = [[int(x0.oddpos[0].label), False]] if odd else []
            okw = {"oddpos": x0.oddpos[0].label} if odd else {}
            ident = charge == gen.py_combine(sym, [])
            if kind == "roundtrip":
                if not x0.blocks:
                    x0 = gen.rand_array(rng, sym, ndim=2, fermi=fermi, static=static, dtype=dtype, keep=1.0)
                    charge = x0.charge
                    odd = bool(fermi and gen.py_parity(sym, charge))
                    oddpos = [[int(x0.oddpos[0].label), False]] if odd else []
                    okw = {"oddpos": x0.oddpos[0].label} if odd else {}
                # indices restricted to charges in use so that labels describe x exactly
                maps = [[c for c in sorted(ix.chargemap) for _ in range(ix.chargemap[c])] for ix in x0.indices]
                duals = [ix.dual for ix in x0.indices]
                p = dict(common, maps=[[ser.enc_charge(c) for c in m] for m in maps], duals=duals,
                         charge=ser.enc_charge(charge))
                if oddpos:
                    p["oddpos"] = oddpos
                steps = [{"out": ["d"], "op": "to_dense", "in": ["x0"], "params": {}},
                         {"out": ["x"], "op": "from_dense", "in": ["d"], "params": p}]
                env = {"x0": x0}
                res = []
                try:
                    d = x0.to_dense()
                    res.append({"ok": [ser.enc_val(d)]})
                    with warnings.catch_warnings():
                        warnings.simplefilter("ignore")
                        x = cls.from_dense(d, maps, duals, charge=charge, **pykw, **okw)
                    res.append({"ok": [ser.enc_val(x)]})
                    if _val(x) != _val(x0):
                        orc = "from_dense(to_dense(x)) with the matching labels differs from x"
                except Exception as e:  # noqa
                    res.append({"raise": ser.exc_kind(e), "msg": f"{type(e).__name__}: {e}"})
                    orc = f"dense round trip raised {type(e).__name__}: {e}"
                nontrivial = len(x0.blocks) >= 2
            elif kind == "blocks":
                omit_charge = ident and rng.random() < 0.5
                duals = [ix.dual for ix in x0.indices]
                p = dict(common, blocks=_enc_blocks(x0.blocks), duals=duals)
                if not omit_charge:
                    p["charge"] = ser.enc_charge(charge)
                if oddpos:
                    p["oddpos"] = oddpos
                steps = [{"out": ["x"], "op": "from_blocks", "in": [], "params": p}]
                res = []
                try:
                    kk = dict(pykw, **okw)
                    if not omit_charge:
                        kk["charge"] = charge
                    x = cls.from_blocks(dict(x0.blocks), duals, **kk)
                    res.append({"ok": [ser.enc_val(x)]})
                    # describes the same tensor as the direct constructor on the inferred tables
                    direct = cls(indices=x.indices, charge=charge, blocks=dict(x0.blocks), **kw, **okw)
                    if _val(x) != _val(direct):
                        orc = "from_blocks differs from the direct constructor"
                    elif _val(x, tables=False) != _val(x0, tables=False):
                        orc = "from_blocks does not reproduce the blocks it was given"
                    elif any(ix.chargemap.get(c) != d for ix, i0 in zip(x.indices, x0.indices)
                             for c, d in ix.chargemap.items() if c in i0.chargemap and i0.chargemap[c] != d):
                        orc = "from_blocks inferred a wrong block size"
                except Exception as e:  # noqa
                    res.append({"raise": ser.exc_kind(e), "msg": f"{type(e).__name__}: {e}"})
                    if x0.blocks:
                        orc = f"from_blocks raised {type(e).__name__}: {e}"
                nontrivial = omit_charge or not pass_sym
                meta.update(omit_charge=omit_charge)
            elif kind == "ctor":
                # charge may be omitted: inferred from the first sector, or identity without blocks
                omit_charge = (bool(x0.blocks) or ident) and rng.random() < 0.6
                p = dict(common, indices=[ser.enc_index(ix) for ix in x0.indices], blocks=_enc_blocks(x0.blocks))
                if not omit_charge:
                    p["charge"] = ser.enc_charge(charge)
                if oddpos:
                    p["oddpos"] = oddpos
                steps = [{"out": ["x"], "op": "ctor", "in": [], "params": p}]
                res = []
                try:
                    kk = dict(pykw, **okw)
                    if not omit_charge:
                        kk["charge"] = charge
                    x = cls(indices=x0.indices, blocks=dict(x0.blocks), **kk)
                    res.append({"ok": [ser.enc_val(x)]})
                    if _val(x) != _val(x0):
                        orc = ("the direct constructor with the charge omitted differs from the one given the charge"
                               if omit_charge else "direct constructor differs from the generated array")
                except Exception as e:  # noqa
                    res.append({"raise": ser.exc_kind(e), "msg": f"{type(e).__name__}: {e}"})
                    orc = f"constructor raised {type(e).__name__}: {e}"
                nontrivial = omit_charge or not pass_sym
                meta.update(omit_charge=omit_charge)
            elif kind == "fill":
                omit_charge = ident and rng.random() < 0.5
                p = dict(common, indices=[ser.enc_index(ix) for ix in x0.indices])
                if not omit_charge:
                    p["charge"] = ser.enc_charge(charge)
                if oddpos:
                    p["oddpos"] = oddpos
                steps = [{"out": ["x"], "op": "from_fill", "in": [], "params": p}]
                res = []

                def fill(shape):
                    return (np.arange(int(np.prod(shape))) + 1.0).reshape(shape).astype(dtype)

                try:
                    kk = dict(pykw, **okw)
                    if not omit_charge:
                        kk["charge"] = charge
                    if not static and rng.random() < 0.7:
                        # call history on the generic class: the same tables, directions and total charge built
                        # first under ANOTHER symmetry that accepts these charges (results must depend on the
                        # arguments only, never on what was built before)
                        allc = [c for ix in x0.indices for c in ix.chargemap] + [charge]
                        twins = [t for t in gen.SYMS if t != sym and all(gen.py_valid(t, c) for c in allc)]
                        for t in twins:
                            try:
                                tix = [sr.BlockIndex(dict(ix.chargemap), dual=ix.dual) for ix in x0.indices]
                                cls.from_fill_fn(fill, tix, charge=charge, symmetry=t,
                                                 **({"oddpos": okw["oddpos"]} if (okw and gen.py_parity(t, charge)) else {}))
                                meta["twin_history"] = True
                            except Exception:  # noqa
                                pass
                    x = cls.from_fill_fn(fill, x0.indices, **kk)
                    res.append({"ok": [ser.enc_val(x)]})
                    direct = cls(indices=x0.indices, charge=charge,
                                 blocks={s: fill(tuple(ix.chargemap[c] for ix, c in zip(x0.indices, s)))
                                         for s in gen.valid_sectors(sym, x0.indices, charge)}, **kw, **okw)
                    if _val(x, drop_zero=False) != _val(direct, drop_zero=False):
                        orc = "from_fill_fn differs from the direct constructor over all valid sectors"
                except Exception as e:  # noqa
                    res.append({"raise": ser.exc_kind(e), "msg": f"{type(e).__name__}: {e}"})
                    orc = f"from_fill_fn raised {type(e).__name__}: {e}"
                nontrivial = omit_charge or not pass_sym
                meta.update(omit_charge=omit_charge)
            else:  # symarg: class symmetry resolution
                other = rng.choice([s for s in gen.SYMS if s != sym])
                variant = rng.choice(["wrong", "none", "same"])
                p = {"fermi": fermi, "indices": [ser.enc_index(ix) for ix in x0.indices],
                     "blocks": _enc_blocks(x0.blocks), "charge": ser.enc_charge(charge)}
                if oddpos:
                    p["oddpos"] = oddpos
                if static:
                    p["static"] = sym
                arg = {"wrong": other, "none": None, "same": sym}[variant]
                if arg is not None:
                    p["symmetry"] = arg
                steps = [{"out": ["x"], "op": "ctor", "in": [], "params": p}]
                res = []
                expect_error = (static and variant == "wrong") or ((not static) and variant == "none")
                if (not static) and variant == "wrong":
                    # a generic class accepts any symmetry; charges may be invalid for it: not claimed
                    steps = []
                    res = []
                else:
                    try:
                        kk = dict(okw)
                        if arg is not None:
                            kk["symmetry"] = arg
                        x = cls(indices=x0.indices, charge=charge, blocks=dict(x0.blocks), **kk)
                        res.append({"ok": [ser.enc_val(x)]})
                        if expect_error:
                            orc = f"class symmetry resolution accepted symmetry={arg} on {cls.__name__}"
                        elif ser.sym_name(x.symmetry) != sym:
                            orc = "wrong symmetry resolved"
                    except ValueError as e:
                        res.append({"raise": "value", "msg": str(e)})
                        if not expect_error:
                            orc = f"class symmetry resolution rejected a valid call: {e}"
                    except Exception as e:  # noqa
                        res.append({"raise": ser.exc_kind(e), "msg": f"{type(e).__name__}: {e}"})
                        orc = f"constructor raised {type(e).__name__}: {e}"
                nontrivial = True
                meta.update(variant=variant)
        case = {"kind": "prog", "env": {k: ser.enc_val(v) for k, v in env.items()}, "steps": steps}
        out.append(dict(case=case, impl=res, oracle=orc, meta=meta, nontrivial=bool(nontrivial), op=kind,
                        triggers=[]))
    return out


def run(ctx):
    from .. import tie

    # translation tie: Lean definitions regenerated from /repo's source + equality theorems with the model
    ctx.tie = tie.run_tie(ctx, tie.FUNCTIONS["C16"])
    n = 6000 if ctx.tier == "quick" else 40000
    stream.run_stream(ctx, "build", "harness.props.c16", "gen_cases", n, per_chunk=80,
                      canon_kw=dict(drop_zero=False))
    # the public random constructors of symmray/utils.py against their literal model (draws as parameters)
    from . import c16_rand
    c16_rand.run_c16_rand(ctx)


def replay(ctx, payload):
    return stream.replay(ctx, payload, canon_kw=dict(drop_zero=False))
