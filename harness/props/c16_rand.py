"""c16_rand — correspondence stream for the public random constructors of symmray/utils.py
(properties C16 / C01 "construct" / C20 anchor utils.py:50-61).

Called from the owning property as ``c16_rand.run_c16_rand(ctx)``.

What is compared (real symmray vs the Lean model `SymmModel.Rand`, driver kind "randindex"):
  * get_u1_charges / get_u1u1_charges                    (the 'closest to zero' sequences)
  * rand_partition                                       (draws recorded from the real Generator)
  * rand_z2_index / rand_z2z2_index / rand_u1_index / rand_u1u1_index and the rand_index dispatch:
    d in 1..12, every deterministic subsizes mode, explicit sequences (well-formed ones and raw ones
    with zeros / wrong sums / wrong lengths), subsizes=None with the draws recorded from the real
    Generator, dual in (True, False, None), dict-valued d, unsupported symmetry
  * choose_duals                                         (every input form)
  * get_rand                                             (indices, charge default, stored sector set,
    block shapes, dtype of every block for float32/float64/complex64/complex128, normal/uniform)
  * get_rand_blockvector                                 (block sizes)

Direct oracles on the real code (independent of symmray's own check()):
  index: charges strictly sorted and legal for the symmetry, sizes POSITIVE, sizes sum to d, direction
  as requested;  array: every index passes that, the stored sectors are exactly the charge-conserving
  ones (brute force over the product of the index charges), block shapes are the index sizes, every
  block has the requested dtype.

The draws of the numpy Generator are recorded with a `numpy.random.Generator` subclass
(`get_rng(seed)` returns a Generator argument unchanged), so that the `None` paths are compared too.
"""

import itertools
import json
import math
import random

import numpy as np

from .. import gen, ser

THEOREMS = [
    "SymmModel.C16.randIndex_wf",
    "SymmModel.C16.randIndex_unsupported",
    "SymmModel.C16.randZ2Index_wf",
    "SymmModel.C16.randZ2Index_minimal_single_charge",
    "SymmModel.C16.randZ2Z2Index_wf",
    "SymmModel.C16.randU1Index_wf",
    "SymmModel.C16.randU1U1Index_wf",
    "SymmModel.C16.randIndex_explicit_wf",
    "SymmModel.C16.randIndex_explicit_zero_counterexample",
    "SymmModel.C16.randZ2Index_explicit_d1_ignored",
    "SymmModel.C16.randZ2Z2Index_explicit_truncates",
    "SymmModel.C16.randZ2Index_explicit_unpack",
    "SymmModel.C16.randZ2Z2Index_dict_type_error",
    "SymmModel.C16.randPartition_parts",
    "SymmModel.C16.randPartition_last_ge_two",
    "SymmModel.C16.randPartition_error",
    "SymmModel.C16.chargeSequences_spec",
    "SymmModel.C16.chooseDuals_spec",
    "SymmModel.C16.fillDtype_eq",
    "SymmModel.C16.randBlockSizes_spec",
    "SymmModel.C16.getRand_valid",
]
LEAN_FILES = ["SymmModel.Props.C16c", "SymmModel.Proofs.RandLemmas"]
PROPS_MODULE = "SymmModel.Props.C16c"
ANCHORS = {"utils.py": ["get_random_fill_fn", "rand_z2_index", "rand_partition", "rand_z2z2_index",
                        "get_u1_charges", "rand_u1_index", "get_u1u1_charges", "rand_u1u1_index",
                        "choose_duals", "get_rand_z2array", "get_rand_z2z2array", "get_rand_u1array",
                        "get_rand_u1u1array", "get_rand", "get_rand_blockvector", "rand_index"]}
ASSUMPTIONS = ["int(n ** 0.5) equals the integer square root (checked for n < 20000 by the stream; the model "
               "uses Nat.sqrt)",
               "explicit subsizes entries are non-negative ints"]
RULE = ("random constructors of utils.py against the Lean model on all four symmetries, d in 1..12, every "
        "subsizes mode (draws of the None mode recorded from the real Generator), duals forms, dtypes and "
        "distributions; non-trivial: an index with at least two charges or an array with at least two blocks")

SYMS = ["Z2", "Z2Z2", "U1", "U1U1"]
MODES = ["equal", "maximal", "minimal"]
DTYPES = ["float32", "float64", "complex64", "complex128"]


# ---------------------------------------------------------------------------------------------
# recording Generator


def _rec_rng(seed):
    class Rec(np.random.Generator):
        """numpy Generator that logs its top-level `choice` / `integers` / `poisson` calls"""

        def __init__(self, bitgen):
            super().__init__(bitgen)
            self.log = []
            self._depth = 0

        def _wrap(self, name, a, k):
            self._depth += 1
            try:
                r = getattr(super(), name)(*a, **k)
            finally:
                self._depth -= 1
            if self._depth == 0:
                self.log.append((name, a, k, r))
            return r

        def choice(self, *a, **k):
            return self._wrap("choice", a, k)

        def integers(self, *a, **k):
            return self._wrap("integers", a, k)

        def poisson(self, *a, **k):
            return self._wrap("poisson", a, k)

    return Rec(np.random.PCG64(seed))


class _LogReader:
    def __init__(self, log):
        self.log = list(log)
        self.pos = 0

    def take(self, name):
        if self.pos >= len(self.log) or self.log[self.pos][0] != name:
            raise LookupError(f"expected a {name} draw at position {self.pos}: "
                              f"{[e[0] for e in self.log]}")
        e = self.log[self.pos]
        self.pos += 1
        return e[3]

    def done(self):
        return self.pos == len(self.log)


def _draws_for_index(sym, d, dual, subsizes, rd):
    """replay the order in which rand_*_index consumes the Generator"""
    dr = {}
    if dual is None:
        dr["dual"] = bool(rd.take("choice"))
    if subsizes is not None or isinstance(d, dict):
        return dr
    if sym == "Z2":
        if d == 1:
            dr["charge"] = int(rd.take("choice"))
        else:
            dr["d0"] = int(rd.take("integers"))
    elif sym == "Z2Z2":
        if d < 4:
            dr["charges"] = [[int(c[0]), int(c[1])] for c in rd.take("choice")]
        elif d != 4:
            dr["splits"] = [int(x) for x in rd.take("choice")]
    else:
        nc = int(rd.take("integers"))
        dr["ncharge"] = nc
        if d != nc:
            dr["splits"] = [int(x) for x in rd.take("choice")]
    return dr


# ---------------------------------------------------------------------------------------------
# encoders / independent oracles


def _enc_cm(cm):
    return [[ser.enc_charge(_pyc(c)), int(n)] for c, n in cm.items()]


def _pyc(c):
    if isinstance(c, tuple):
        return tuple(int(x) for x in c)
    return int(c)


def _enc_subsizes(ss):
    if ss is None:
        return "none"
    if isinstance(ss, str):
        return ss
    return [int(x) for x in ss]


def _exc_kind(e):
    if isinstance(e, ValueError):
        return "value"
    if isinstance(e, TypeError):
        return "type"
    if isinstance(e, KeyError):
        return "key"
    if isinstance(e, IndexError):
        return "index"
    return "other"


def _index_obs(ix):
    return {"cm": _enc_cm(ix.chargemap), "dual": bool(ix.dual)}


def _py_valid(sym, c):
    """is `c` a legal charge label of `sym` (independent of symmray)"""
    def _int(x):
        return isinstance(x, int) and not isinstance(x, bool)
    if sym == "Z2":
        return _int(c) and c in (0, 1)
    if sym == "U1":
        return _int(c)
    if sym == "Z2Z2":
        return isinstance(c, tuple) and len(c) == 2 and all(_int(x) and x in (0, 1) for x in c)
    if sym == "U1U1":
        return isinstance(c, tuple) and len(c) == 2 and all(_int(x) for x in c)
    return False


def _index_oracle(sym, ix, d, dual):
    """independent validity of a generated index; None if fine, else the reason"""
    cm = ix.chargemap
    keys = [_pyc(c) for c in cm]
    if not all(_py_valid(sym, c) for c in keys):
        return "illegal charge"
    ek = [ser.enc_charge(c) for c in keys]
    if any(not (a < b) for a, b in zip(ek, ek[1:])):
        return "charges not strictly sorted"
    sizes = [int(v) for v in cm.values()]
    if any((not isinstance(v, (int, np.integer))) for v in cm.values()):
        return "size is not an int"
    if any(s <= 0 for s in sizes):
        return "size not positive"
    if d is not None and sum(sizes) != d:
        return f"sizes sum to {sum(sizes)} != {d}"
    if dual is not None and bool(ix.dual) != bool(dual):
        return "direction differs from the requested one"
    if ix.subinfo is not None:
        return "unexpected subinfo"
    return None


def _valid_sectors_bruteforce(sym, indices, charge):
    out = set()
    for sec in itertools.product(*[[_pyc(c) for c in ix.chargemap] for ix in indices]):
        if gen.py_sector_charge(sym, list(sec), [bool(ix.dual) for ix in indices]) == charge:
            out.add(tuple(sec))
    return out


# ---------------------------------------------------------------------------------------------
# case generation (each case: query for the model, observation of the real code, oracle verdict)


def _call(fn, *a, **k):
    try:
        return ("ok", fn(*a, **k))
    except Exception as e:  # noqa
        return ("err", e)


def _index_case(u, rng, sym, d, dual, subsizes, dispatch, seed, oracle_applies):
    fn = {"Z2": u.rand_z2_index, "Z2Z2": u.rand_z2z2_index, "U1": u.rand_u1_index,
          "U1U1": u.rand_u1u1_index}[sym]
    rec = _rec_rng(seed)
    if dispatch:
        st, r = _call(u.rand_index, sym, d, dual=dual, subsizes=subsizes, seed=rec)
    else:
        st, r = _call(fn, d, dual=dual, subsizes=subsizes, seed=rec)
    q = {"fn": "index", "sym": sym, "d": ({"cm": _enc_cm(d)} if isinstance(d, dict) else int(d)),
         "dual": dual, "subsizes": _enc_subsizes(subsizes), "dispatch": bool(dispatch)}
    note = None
    try:
        rd = _LogReader(rec.log)
        q["draws"] = _draws_for_index(sym, d, dual, subsizes, rd)
        if st == "ok" and not rd.done():
            note = "unconsumed draws in the Generator log"
    except LookupError as e:
        if st == "ok":
            note = str(e)
        q["draws"] = {}
    if st == "ok":
        try:
            obs = {"ok": _index_obs(r)}
        except Exception as e:  # noqa  (a malformed object, e.g. Z2Z2 'minimal' with a dict d)
            obs = {"err": _exc_kind(e)}
    else:
        obs = {"err": _exc_kind(r)}
    orc = None
    trig = set()
    if st == "ok" and oracle_applies and not isinstance(d, dict):
        want_dual = dual if dual is not None else q["draws"].get("dual")
        orc = _index_oracle(sym, r, int(d), want_dual)
    if st == "err" and oracle_applies:
        orc = f"raised {type(r).__name__}: {r}"
    nontrivial = st == "ok" and "ok" in obs and len(obs["ok"]["cm"]) >= 2
    return dict(q=q, obs=obs, oracle=orc, triggers=trig, op="rand_index" if dispatch else fn.__name__,
                note=note, nontrivial=nontrivial, meta=dict(stream="index", sym=sym, mode=str(_enc_subsizes(subsizes))
                                                            if not isinstance(subsizes, (tuple, list)) else "explicit",
                                                            dual=str(dual)))


def _composition(rng, d, n):
    cuts = sorted(rng.sample(range(1, d), n - 1)) if n > 1 else []
    pts = [0] + cuts + [d]
    return tuple(pts[i + 1] - pts[i] for i in range(n))


def gen_corpus_cases(u, rng):
    """regression corpus, run first: the repaired finding rand-z2-index-minimal-zero-size
    (rand_z2_index(d, subsizes="minimal") used to return {0: d, 1: 0} for d >= 2)"""
    out = []
    for d in (2, 3, 4, 5):
        for dual, dispatch in ((False, False), (True, True), (None, False)):
            it = _index_case(u, rng, "Z2", d, dual, "minimal", dispatch, 1000 + d, True)
            it["meta"] = dict(stream="corpus", sym="Z2", mode="minimal")
            out.append(it)
    return out


def gen_index_cases(u, rng, tier):
    out = []
    dmax = 12
    seeds = 2 if tier == "quick" else 12
    for sym in SYMS:
        for d in range(1, dmax + 1):
            for mode in MODES:
                for dual in (True, False, None):
                    out.append(_index_case(u, rng, sym, d, dual, mode, rng.random() < 0.5,
                                           rng.randrange(10 ** 6), True))
            # subsizes=None, draws recorded
            for _ in range(seeds):
                dual = rng.choice([True, False, None])
                out.append(_index_case(u, rng, sym, d, dual, None, rng.random() < 0.5,
                                       rng.randrange(10 ** 6), True))
            # explicit sequences the generators can honour
            for _ in range(seeds):
                nmax = {"Z2": 2, "Z2Z2": 4}.get(sym, 6)
                n = 2 if sym == "Z2" else rng.randint(1, min(d, nmax))
                if sym == "Z2" and d < 2:
                    continue
                comp = _composition(rng, d, n)
                if rng.random() < 0.3:
                    comp = list(comp)
                out.append(_index_case(u, rng, sym, d, rng.choice([True, False, None]), comp,
                                       rng.random() < 0.5, rng.randrange(10 ** 6), True))
            # raw explicit sequences: zeros, wrong sums, wrong lengths (correspondence only)
            for _ in range(seeds):
                raw = tuple(rng.randint(0, 3) for _ in range(rng.randint(0, 6)))
                out.append(_index_case(u, rng, sym, d, rng.choice([True, False]), raw,
                                       rng.random() < 0.5, rng.randrange(10 ** 6), False))
        # dict-valued d
        pool = gen.charge_pool(sym)
        for _ in range(3 * seeds):
            cs = rng.sample(pool, rng.randint(1, min(3, len(pool))))
            cm = {c: rng.randint(1, 3) for c in cs}
            mode = rng.choice([None, "equal", "maximal", "minimal", (1, 2)])
            if sym == "Z2Z2" and mode == "minimal":
                continue  # returns an object whose only size is the dict itself (see report)
            out.append(_index_case(u, rng, sym, cm, rng.choice([True, False, None]), mode,
                                   rng.random() < 0.5, rng.randrange(10 ** 6), False))
    return out


def gen_fn_cases(u, rng, tier):
    """charge sequences, rand_partition, choose_duals, block vectors"""
    out = []
    nmax = 40 if tier == "quick" else 300
    for n in range(0, nmax + 1):
        out.append(dict(q={"fn": "u1_charges", "n": n},
                        obs={"ok": [int(c) for c in u.get_u1_charges(n)]}, oracle=None, triggers=set(),
                        op="get_u1_charges", note=None, nontrivial=n >= 2, meta=dict(stream="u1_charges")))
        cs = u.get_u1u1_charges(n)
        orc = None
        if len(cs) != n or len(set(cs)) != n:
            orc = f"get_u1u1_charges({n}) returned {len(cs)} charges, {len(set(cs))} distinct"
        out.append(dict(q={"fn": "u1u1_charges", "n": n},
                        obs={"ok": [[int(c[0]), int(c[1])] for c in cs]}, oracle=orc, triggers=set(),
                        op="get_u1u1_charges", note=None, nontrivial=n >= 2, meta=dict(stream="u1u1_charges")))
    # rand_partition
    reps = 2 if tier == "quick" else 10
    for d in range(0, 13):
        for n in range(0, d + 3):
            for _ in range(reps):
                rec = _rec_rng(rng.randrange(10 ** 6))
                st, r = _call(u.rand_partition, d, n, seed=rec)
                draw = []
                for e in rec.log:
                    if e[0] == "choice":
                        draw = [int(x) for x in e[3]]
                q = {"fn": "partition", "d": d, "n": n, "draw": draw}
                if st == "ok":
                    obs = {"ok": [int(x) for x in r]}
                    orc = None
                    if 1 <= n <= d and not (len(r) == n and all(x >= 1 for x in r) and sum(r) == d):
                        orc = f"rand_partition({d}, {n}) = {list(r)}"
                else:
                    obs = {"err": _exc_kind(r)}
                    orc = f"rand_partition({d}, {n}) raised {r}" if 1 <= n <= d else None
                out.append(dict(q=q, obs=obs, oracle=orc, triggers=set(), op="rand_partition", note=None,
                                nontrivial=st == "ok" and n >= 2 and d != n, meta=dict(stream="partition")))
    # choose_duals
    forms = ["equal", None, True, False]
    for ndim in range(0, 7):
        for du in forms + [[rng.choice([True, False, None]) for _ in range(rng.randint(0, 6))] for _ in range(4)] \
                + [tuple(rng.choice([True, False]) for _ in range(ndim))]:
            st, r = _call(u.choose_duals, du, ndim)
            q = {"fn": "choose_duals", "duals": (list(du) if isinstance(du, (list, tuple)) else du), "ndim": ndim}
            if st == "ok":
                obs = {"ok": [None if x is None else bool(x) for x in r]}
                orc = None if len(r) == ndim else "wrong number of directions"
            else:
                obs = {"err": _exc_kind(r)}
                orc = None if isinstance(du, (list, tuple)) and len(du) != ndim else f"raised {r}"
            out.append(dict(q=q, obs=obs, oracle=orc, triggers=set(), op="choose_duals", note=None,
                            nontrivial=ndim >= 2, meta=dict(stream="choose_duals")))
    # get_rand_blockvector
    for size in range(0, 13):
        for bs in [0.25, 0.5, 0.05, 1, 2, 3, 5, 20]:
            rec = _rec_rng(rng.randrange(10 ** 6))
            st, r = _call(u.get_rand_blockvector, size, block_size=bs, seed=rec)
            if st != "ok":
                out.append(dict(q=None, obs=None, oracle=f"get_rand_blockvector({size}, {bs}) raised {r}",
                                triggers=set(), op="get_rand_blockvector", note=None, nontrivial=False,
                                meta=dict(stream="blockvector")))
                continue
            draws = [int(e[3]) for e in rec.log if e[0] == "poisson"]
            bs0 = draws[0] if bs < 1 and draws else (int(bs) if bs >= 1 else 0)
            sizes = [int(np.shape(b)[0]) for b in r.blocks.values()]
            orc = None
            if list(r.blocks.keys()) != list(range(len(sizes))) or any(s <= 0 for s in sizes) or sum(sizes) != size:
                orc = f"get_rand_blockvector({size}, {bs}) block sizes {sizes}"
            if len(draws) > 1:
                orc = "more than one Poisson draw"
            out.append(dict(q={"fn": "blockvector", "size": size, "bs0": bs0}, obs={"ok": sizes}, oracle=orc,
                            triggers=set(), op="get_rand_blockvector", note=None, nontrivial=len(sizes) >= 2,
                            meta=dict(stream="blockvector")))
    return out


def gen_array_cases(u, sr, rng, tier):
    out = []
    n = 260 if tier == "quick" else 3000
    for k in range(n):
        sym = SYMS[k % 4]
        ndim = rng.randint(1, 3)
        fermi = rng.random() < 0.35
        mode = rng.choice(["equal", "maximal", "minimal", None, "explicit"])
        dtype = DTYPES[(k // 4) % 4]
        dist = ["normal", "uniform"][(k // 16) % 2]
        pool = gen.charge_pool(sym)
        shape, qshape = [], []
        dfix = rng.randint(1, 5)
        explicit = None
        if mode == "explicit":
            nn = 2 if sym == "Z2" else rng.randint(1, min(dfix, 3))
            if sym == "Z2" and dfix < 2:
                dfix = 2
            explicit = _composition(rng, dfix, nn)
        for _a in range(ndim):
            r = rng.random()
            if r < 0.7 or mode == "explicit":
                d = dfix if mode == "explicit" else rng.randint(1, 5)
                shape.append(d)
                qshape.append(d)
            elif r < 0.85:
                cs = rng.sample(pool, rng.randint(1, min(3, len(pool))))
                cm = {c: rng.randint(1, 2) for c in cs}
                shape.append(cm)
                qshape.append({"cm": _enc_cm(cm)})
            else:
                cs = rng.sample(pool, rng.randint(1, min(3, len(pool))))
                ix = sr.BlockIndex({c: rng.randint(1, 2) for c in cs}, dual=rng.random() < 0.5)
                shape.append(ix)
                qshape.append({"index": _index_obs(ix)})
        duform = rng.choice(["equal", None, True, False, "seq"])
        duals = [rng.choice([True, False, None]) for _ in range(ndim)] if duform == "seq" else duform
        subs = explicit if mode == "explicit" else mode
        rec = _rec_rng(rng.randrange(10 ** 6))
        # the total charge: omitted (default = identity), or the identity given explicitly, or for
        # fermionic arrays sometimes an odd one with a label
        kw = {}
        charge = None
        oddpos = []
        if rng.random() < 0.3:
            charge = gen.py_combine(sym, [])
        elif fermi and rng.random() < 0.3:
            charge = {"Z2": 1, "U1": 1, "Z2Z2": (0, 1), "U1U1": (1, 0)}[sym]
            kw["oddpos"] = 7
            oddpos = [[7, False]]
        st, r = _call(u.get_rand, sym, tuple(shape), duals=duals, charge=charge, seed=rec, dist=dist,
                      fermionic=fermi, subsizes=subs, dtype=dtype, **kw)
        q = {"fn": "get_rand", "sym": sym, "shape": qshape, "duals": duals,
             "charge": (None if charge is None else ser.enc_charge(charge)), "fermi": fermi,
             "subsizes": _enc_subsizes(subs), "dtype": dtype, "oddpos": oddpos}
        # replay the draws index by index
        note = None
        try:
            rd = _LogReader(rec.log)
            du_list = ([i >= ndim // 2 for i in range(ndim)] if duals == "equal"
                       else [duals] * ndim if duals is None or isinstance(duals, bool) else list(duals))
            draws = []
            for e, f in zip(shape, du_list):
                if isinstance(e, int):
                    draws.append(_draws_for_index(sym, e, f, subs, rd))
                else:
                    draws.append({})
            q["draws"] = draws
            if st == "ok" and not rd.done():
                note = "unconsumed draws in the Generator log"
        except LookupError as e:
            q["draws"] = []
            if st == "ok":
                note = str(e)
        trig = set()
        if st != "ok":
            out.append(dict(q=q, obs={"err": _exc_kind(r)}, oracle=f"get_rand raised {type(r).__name__}: {r}",
                            triggers=trig, op="get_rand", note=note, nontrivial=False,
                            meta=dict(stream="get_rand", sym=sym, mode=str(mode), dtype=dtype, dist=dist)))
            continue
        x = r
        secs = sorted(ser.enc_sector(s) for s in x.blocks)
        obs = {"ok": {"indices": [_index_obs(ix) for ix in x.indices],
                      "charge": ser.enc_charge(_pyc(x.charge)),
                      "sectors": secs,
                      "shapes": {json.dumps(ser.enc_sector(s)): [int(v) for v in np.shape(b)]
                                 for s, b in x.blocks.items()},
                      "dtype": sorted({str(np.asarray(b).dtype) for b in x.blocks.values()})}}
        # direct oracle
        orc = None
        for ax, (ix, e) in enumerate(zip(x.indices, shape)):
            want = e if isinstance(e, int) else None
            why = _index_oracle(sym, ix, want, None)
            if why:
                orc = f"index {ax}: {why}"
                break
        if orc is None:
            ch = _pyc(x.charge)
            if charge is None and ch != gen.py_combine(sym, []):
                orc = "default charge is not the identity"
            want_secs = _valid_sectors_bruteforce(sym, x.indices, ch)
            have = {tuple(_pyc(c) for c in s) for s in x.blocks}
            if orc is None and want_secs != have:
                orc = "stored sectors are not exactly the charge-conserving ones"
            if orc is None:
                for s, b in x.blocks.items():
                    if tuple(np.shape(b)) != tuple(int(ix.chargemap[c]) for ix, c in zip(x.indices, s)):
                        orc = "block shape differs from the index sizes"
        if orc is None or trig:
            bad = [str(np.asarray(b).dtype) for b in x.blocks.values() if np.asarray(b).dtype != np.dtype(dtype)]
            if bad and orc is None:
                orc = f"a block has dtype {bad[0]}, requested {dtype}"
                trig = set()
            nel = sum(int(np.size(b)) for b in x.blocks.values())
            if orc is None and nel > 0 and "complex" in dtype and not any(
                    np.any(np.asarray(b).imag != 0) for b in x.blocks.values()):
                orc = f"complex random fill ({dtype}, {dist}) has an identically zero imaginary part"
                trig = set()
        out.append(dict(q=q, obs=obs, oracle=orc, triggers=trig, op="get_rand", note=note,
                        nontrivial=len(x.blocks) >= 2,
                        meta=dict(stream="get_rand", sym=sym, mode=str(mode), dtype=dtype, dist=dist,
                                  fermi=fermi, duals=str(duform))))
    return out


# ---------------------------------------------------------------------------------------------
# comparison


def _canon_model(item, m):
    """bring the model's answer to the shape of the observation"""
    q = item["q"]
    if "err" in m:
        return {"err": m["err"]}
    r = m["ok"]
    if q["fn"] == "index":
        return {"ok": {"cm": r["cm"], "dual": r["dual"]}}
    if q["fn"] == "get_rand":
        return {"ok": {"indices": [{"cm": ix["cm"], "dual": ix["dual"]} for ix in r["indices"]],
                       "charge": r["charge"],
                       "sectors": sorted(r["sectors"]),
                       "shapes": {json.dumps(s): sh for s, sh in zip(r["sectors"], r["shapes"])},
                       "dtype": ([r["dtype"]] if r["sectors"] else [])}}
    return {"ok": r}


def _model_says_wellformed(item, m):
    if "ok" not in m:
        return None
    if item["q"]["fn"] == "index":
        return bool(m["ok"]["wf"]) and m["ok"]["total"] == item["q"]["d"]
    if item["q"]["fn"] == "get_rand":
        return bool(m["ok"]["valid"])
    return None


def run_c16_rand(ctx):
    import symmray as sr
    from symmray import utils as u

    rng = random.Random(ctx.seed * 1000003 + 1616)
    # the model's square root is exact; check the float one the code uses on a range
    for n in range(0, 20000):
        if int(n ** 0.5) != math.isqrt(n):
            ctx.correspondence_broken("c16_rand:isqrt-assumption", f"int({n} ** 0.5) != isqrt({n})")
            break
    # unsupported symmetry: ValueError from both dispatchers
    for f, a in ((u.rand_index, ("Z4", 3)), (u.get_rand, ("Z4", (2, 2)))):
        try:
            f(*a)
            ctx.violation(f"{f.__name__} accepted the unsupported symmetry Z4", {"call": f.__name__},
                          op=f.__name__)
        except ValueError:
            pass
    items = gen_corpus_cases(u, rng) + gen_index_cases(u, rng, ctx.tier) + gen_fn_cases(u, rng, ctx.tier) \
        + gen_array_cases(u, sr, rng, ctx.tier)
    ctx.evaluations += len(items)
    withq = [it for it in items if it["q"] is not None]
    CH = 400
    reqs = [{"id": i, "kind": "randindex", "qs": [it["q"] for it in withq[k:k + CH]]}
            for i, k in enumerate(range(0, len(withq), CH))]
    model = ctx.model(reqs)
    answers = {}
    if model is not None:
        for i, k in enumerate(range(0, len(withq), CH)):
            m = model[i]
            if "bad" in m:
                ctx.correspondence_broken("c16_rand:driver-bad", str(m["bad"])[:2000])
                continue
            for it, a in zip(withq[k:k + CH], m["rs"]):
                answers[id(it)] = a
    for it in items:
        for kk, v in it["meta"].items():
            ctx.stat(f"rand.{kk}={v}")
        if it["nontrivial"]:
            ctx.mark_nontrivial(json.dumps(it["q"], sort_keys=True, default=str))
        if it["meta"]["stream"] in ("index", "get_rand", "corpus"):
            ctx.sample({"query": it["q"], "observed": it["obs"]}, limit=4)
        case = {"query": it["q"], "observed": it["obs"]}
        m = answers.get(id(it))
        agree = None
        if m is not None:
            cm = _canon_model(it, m)
            agree = cm == it["obs"]
            if agree and it["note"]:
                agree = False
            if agree:
                # the model's own verdict must coincide with the direct oracle's
                wf = _model_says_wellformed(it, m)
                if wf is not None and it["oracle"] is not None and wf and it["meta"]["stream"] in ("index", "corpus"):
                    ctx.correspondence_broken("c16_rand:wfB-vs-oracle",
                                              json.dumps(dict(case=case, oracle=it["oracle"]), default=str)[:3000])
        if it["oracle"] is not None:
            # the property fails on the real code on this input (confirmed independently of the model)
            fresh = ctx.violation(f"{it['op']}: {it['oracle']}", case, triggers=it["triggers"], op=it["op"])
            if fresh or agree is not False:
                continue
            # a recorded finding: the model has to reproduce the defective result exactly
        if agree is False:
            ctx.disagreements_checked += 1
            ctx.correspondence_broken(
                "c16_rand:model-vs-implementation",
                json.dumps(dict(case=case, model=_canon_model(it, m), note=it["note"], op=it["op"]),
                           default=str)[:4000])
