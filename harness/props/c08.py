"""C08 — Structural, elementwise and arithmetic operations commute with densification."""

import random

import numpy as np

from .. import gen, impl, oracle, ser, stream
from . import c08_sparse

ID = "C08"
LEVEL = "proof"
PROPS_MODULE = "SymmModel.Props.C08All7"
THEOREMS = [
    "SymmModel.C08.locateAll_total",
    "SymmModel.C08.toDenseA_get",
    "SymmModel.C08.toDenseA_error_iff",
    "SymmModel.C08.toDenseA_error_kind",
    "SymmModel.C08.locateAll_inBox",
    "SymmModel.C08.neg_elem",
    "SymmModel.C08.smul_elem",
    "SymmModel.C08.sdiv_elem",
    "SymmModel.C08.conjA_elem",
    "SymmModel.C08.addA_ok",
    "SymmModel.C08.mulA_ok",
    "SymmModel.C08.add_outer_elem",
    "SymmModel.C08.mul_inner_elem",
    "SymmModel.C08.mul_inner_sectors",
    "SymmModel.C08.add_outer_sectors",
    "SymmModel.C08.sub_error_iff",
    "SymmModel.C08.sub_strict_elem",
    "SymmModel.C08.mul_comm_obs",
    "SymmModel.C08.multiplyDiagonal_elem",
    "SymmModel.C08.neg_toDense",
    "SymmModel.C08.smul_toDense",
    "SymmModel.C08.sdiv_toDense",
    "SymmModel.C08.conj_toDense",
    "SymmModel.C08.conj_indices",
    "SymmModel.C08.add_toDense",
    "SymmModel.C08.mul_toDense",
    "SymmModel.C08.sub_toDense",
    "SymmModel.C08.multiplyDiagonal_toDense",
    "SymmModel.C08.transposeA_elem",
    "SymmModel.C08.transposeA_toDense",
    "SymmModel.C08.hypotheses_of_validB",
    "SymmModel.C08.GRat_laws",
    "SymmModel.C08.sum_locateAll_reindex",
    "SymmModel.C08.sum_toDense",
    "SymmModel.C08.sum_toDense_of_valid",
    "SymmModel.C08.norm_sq_eq_dense",
    "SymmModel.C08.norm_sq_eq_dense_of_valid",
    "SymmModel.C08.dagger_toDense",
    "SymmModel.C08.squeeze_eq_mask",
    "SymmModel.C08.squeeze_error_iff",
    "SymmModel.C08.squeeze_mask_spec",
    "SymmModel.C08.squeeze_elem",
    "SymmModel.C08.squeeze_toDense",
    "SymmModel.C08.expandDims_indices",
    "SymmModel.C08.expandDims_elem",
    "SymmModel.C08.expandDims_toDense",
    "SymmModel.C08.toDenseV_spec",
    "SymmModel.C08.mapV_toDense",
    "SymmModel.C08.binopV_ok",
    "SymmModel.C08.binopV_toDense",
    "SymmModel.C08.binopV_strict_error_iff",
    "SymmModel.C08.reduceV_toDense",
    "SymmModel.C08.expandDims_charge_indices",
    "SymmModel.C08.expandDims_charge_sectors",
    "SymmModel.C08.expandDims_charge_elem",
    "SymmModel.C08.expandDims_charge_toDense",
    "SymmModel.C08.expandDims_toDense_indep",
    "SymmModel.C08.expandDims_charge_valid_iff",
    "SymmModel.C08.expandDims_charge_valid",
    "SymmModel.C08.mapA_elem_exact",
    "SymmModel.C08.mapA_toDense_exact",
    "SymmModel.C08.mapA_toDense",
    "SymmModel.C08.mapA_toDense_iff",
    "SymmModel.C08.negA_eq_mapA",
    "SymmModel.C08.smulA_eq_mapA",
    "SymmModel.C08.sdivA_eq_mapA",
    "SymmModel.C08.mapA_succ_counterexample",
    "SymmModel.C08.x_hasMissing",
    "SymmModel.C08.toDense_entries",
    "SymmModel.C08.locateAll_onto",
    "SymmModel.C08.reduceA_spec",
    "SymmModel.C08.isLub_unique",
    "SymmModel.C08.reduce_toDense",
    "SymmModel.C08.reduce_toDense_of_zero_le",
    "SymmModel.C08.hasMissing_iff",
    "SymmModel.C08.max_counterexample",
    "SymmModel.C08.trace_toDense",
    "SymmModel.C08.fuse_toDense_partial",
    "SymmModel.C08.toDense_sameContent",
    "SymmModel.C08.fuse_toDense_content",
    "SymmModel.C08.unfuse_toDense_content",
    "SymmModel.C08.reshape_toDense_content",
    "SymmModel.C08.fuse_toDense",
    "SymmModel.C08.fuseA_eq_fuseCore",
    "SymmModel.C08.unfuse_toDense",
    "SymmModel.C08.reshape_one_fuse_call",
    "SymmModel.C08.reshape_one_unfuse_call",
    "SymmModel.C08.reshape_toDense_one_call",
    "SymmModel.C08.einsum_perm_toDense",
    "SymmModel.C08.einsum_perm_dense_kernel",
    "SymmModel.C08.calls_toDense",
    "SymmModel.C08.reshape_toDense_calls",
    "SymmModel.C08.reshape_toDense_runs",
    "SymmModel.C08.fuse_forward_rel",
    "SymmModel.C08.fuse_position_injective",
    "SymmModel.C08.fuse_position_functional",
    "SymmModel.C08.transpose_dense_block",
    "SymmModel.C08.conj_dense_block",
    "SymmModel.C08.expandDims_dense_block",
    "SymmModel.C08.squeeze_dense_block",
    "SymmModel.C08.SOp_step_toDense",
    "SymmModel.C08.SProg_toDense_commutes",
    "SymmModel.C08.SProg_run_cons",
    "SymmModel.C08.toDenseA_of_VEq",
    "SymmModel.C08.reshape_mergeDrop_roundtrip_dense",
    "SymmModel.C08.reshape_runs_roundtrip_dense",
    "SymmModel.C08.fuse_img",
    "SymmModel.C08.unfuse_img",
    "SymmModel.C08.expand_img",
    "SymmModel.C08.img_comp",
    "SymmModel.C08.reshape_toDense_plan",
    "SymmModel.C08.fillMissing_ok",
    "SymmModel.C08.fillMissing_blocks",
    "SymmModel.C08.fillMissing_frame",
    "SymmModel.C08.fillMissing_elem",
    "SymmModel.C08.fillMissing_toDense",
    "SymmModel.C08.fillMissing_valid",
    "SymmModel.C08.fillMissing_sectors",
    "SymmModel.C08.fillMissing_sectors_exact",
    "SymmModel.C08.fillMissing_sparsity",
    "SymmModel.C08.fillMissing_idem",
    "SymmModel.C08.dropMissing_blocks",
    "SymmModel.C08.dropMissing_noZero",
    "SymmModel.C08.dropMissing_elem",
    "SymmModel.C08.dropMissing_toDense",
    "SymmModel.C08.dropMissing_valid",
    "SymmModel.C08.dropMissing_idem",
    "SymmModel.C08.drop_fill",
    "SymmModel.C08.fill_drop",
    "SymmModel.C08.allclose_iff_elem",
    "SymmModel.C08.allclose_refl",
    "SymmModel.C08.allclose_symm",
    "SymmModel.C08.allclose_trans",
    "SymmModel.C08.allclose_toDense",
    "SymmModel.C08.allclose_of_obsEq",
    "SymmModel.C08.allclose_fill_drop",
    "SymmModel.C08.setParams_getParams",
    "SymmModel.C08.setParams_lookup",
    "SymmModel.C08.setParams_sectors",
    "SymmModel.C08.item_eq_elem",
    "SymmModel.C08.item_eq_stored",
    "SymmModel.C08.item_ok_iff",
    "SymmModel.C08.item_error_iff",
    "SymmModel.C08.item_error_kind",
    "SymmModel.C08.item_phaseSync",
    "SymmModel.C08.toComplex_eq_item",
    "SymmModel.C08.toFloat_real",
    "SymmModel.C08.toFloat_complex",
    "SymmModel.C08.toInt_real",
    "SymmModel.C08.toInt_of_int",
    "SymmModel.C08.toInt_complex",
    "SymmModel.C08.toBool_eq_item",
    "SymmModel.C08.conv_error_of_item",
    "SymmModel.C08.conv_eq_elem",
    "SymmModel.C08.elem_of_toDense",
    "SymmModel.C08.allclose_iff_toDense",
    "SymmModel.C08.elem_iff_toDense",
    "SymmModel.C08.allclose_of_empty_table"
]
LEAN_FILES = ["SymmModel.Props.C08", "SymmModel.Proofs.DenseLemmas", "SymmModel.Props.C08b", "SymmModel.Props.C08All", "SymmModel.Proofs.DenseMore", "SymmModel.Props.C08c", "SymmModel.Props.C08All2", "SymmModel.Proofs.Dense3a", "SymmModel.Proofs.Dense3b", "SymmModel.Proofs.Dense3d", "SymmModel.Props.C08d", "SymmModel.Props.C08All3", "SymmModel.Proofs.Dense4a", "SymmModel.Proofs.Dense4b", "SymmModel.Proofs.Dense4c", "SymmModel.Props.C08e", "SymmModel.Props.C08All4", "SymmModel.Proofs.Dense5a", "SymmModel.Proofs.Dense5f", "SymmModel.Props.C08f", "SymmModel.Props.C08All5", "SymmModel.Proofs.Dense6a", "SymmModel.Proofs.Dense6b", "SymmModel.Proofs.Dense6c", "SymmModel.Proofs.Dense6d", "SymmModel.Model.Sparse", "SymmModel.Proofs.SparseLemmas", "SymmModel.Props.C08g", "SymmModel.Props.C08All6", "SymmModel.Props.C08h", "SymmModel.Proofs.SmallSparse"]
PLANNED = []
RULE = ("every listed operation on random abelian arrays (all symmetries, static/generic, sparse, real/complex) "
        "through method / symmray function / autoray dispatch; binary operations on operands with different stored "
        "sectors; diagonal vectors missing charges; BlockVector arithmetic and every exported elementwise function. "
        "Compared with the Lean model and with numpy on an independent densification. non-trivial: binary ops with "
        "different stored sectors, or a sparse operand"
        '; transposition axes given with negative entries')
ANCHORS = {"abelian_core.py": ["transpose", "conj", "dagger", "squeeze", "expand_dims", "multiply_diagonal", "to_dense"],
           "block_core.py": ["_binary_blockwise_op", "__add__", "__sub__", "__mul__", "__truediv__", "__neg__",
                             "_do_reduction", "_do_unary_op", "norm"],
           "interface.py": ["log", "abs", "sqrt", "transpose", "conj"]}
ASSUMPTIONS = ["numpy elementwise arithmetic is exact on the small integer / dyadic data used"]
ASSUMPTIONS = list(ASSUMPTIONS) + list(c08_sparse.ASSUMPTIONS_SPARSE)
for _f, _n in c08_sparse.ANCHORS_SPARSE.items():
    ANCHORS[_f] = ANCHORS.get(_f, []) + [n for n in _n if n not in ANCHORS.get(_f, [])]

ARR_OPS = ["transpose", "conj", "dagger", "squeeze", "expand_dims", "smul", "sdiv", "neg", "add", "sub", "mul",
           "multiply_diagonal", "sum", "norm2", "to_dense", "abs"]
VEC_FUNCS = ["abs", "sqrt", "log", "log2", "log10", "isfinite", "clip", "max", "min", "sum"]


def _mk_case(env, steps):
    return {"kind": "prog", "env": {k: ser.enc_val(v) for k, v in env.items()}, "steps": steps}


def _same_tables(rng, x, keep, dtype):
    """another array with the same indices and charge but an independent sparsity pattern"""
    sym = oracle.sym_of(x)
    return gen.rand_array(rng, sym, indices=x.indices, charge=x.charge, static=x.static_symmetry,
                          dtype=dtype, keep=keep, min_blocks=0)


def _cmp_dense(res, exp, indices, charge=None, duals=None):
    r = oracle.embed_compare(res, exp, indices)
    if r is None and charge is not None and res.charge != charge:
        r = f"charge {res.charge} != {charge}"
    return r


def gen_cases(seed, chunk, n, tier):
    import autoray as ar
    import symmray as sr

    rng = random.Random(seed * 7919 + chunk * 104729 + 8)
    out = []
    for _ in range(n):
        sym = rng.choice(gen.SYMS)
        static = rng.random() < 0.7
        dtype = rng.choice(ser.DTYPES)
        keep = rng.choice([0.4, 0.7, 1.0])
        op = rng.choice(ARR_OPS)
        if op == "abs" and dtype.startswith("complex"):
            op = "neg"  # |z| is irrational for Gaussian integers: not exactly comparable
        entry = rng.choice(["method", "function", "autoray"])
        x = gen.rand_array(rng, sym, ndim=rng.randint(1, 4), static=static, dtype=dtype, keep=keep)
        D = oracle.dense(x)
        env = {"x": x}
        p = {}
        ins = ["x"]
        orc = None
        ip_problem = None
        nontrivial = keep < 1.0
        exp = None
        exp_idx = list(x.indices)
        exp_charge = x.charge
        if op == "transpose":
            perm = list(range(x.ndim))
            rng.shuffle(perm)
            # numpy's convention: any axis may be given as a negative number
            p = {"axes": [q - x.ndim if rng.random() < 0.3 else q for q in perm]}
            exp = np.transpose(D, perm)
            exp_idx = [x.indices[q] for q in perm]
        elif op == "conj":
            exp = np.conj(D)
            exp_idx = [ix.conj() for ix in x.indices]
            exp_charge = gen.py_neg(sym, x.charge)
        elif op == "dagger":
            if rng.random() < 0.3:
                p = {"prop": True}  # the .H property
            exp = np.conj(np.transpose(D))
            exp_idx = [ix.conj() for ix in x.indices][::-1]
            exp_charge = gen.py_neg(sym, x.charge)
        elif op == "squeeze":
            # add a removable axis first
            pos = rng.randint(0, x.ndim)
            x = x.expand_dims(pos)
            env = {"x": x}
            D = oracle.dense(x)
            r_ = rng.random()
            p = {"axis": [pos]} if r_ < 0.4 else ({"axis": [pos], "as_int": True} if r_ < 0.65 else {"axis": None})
            if p["axis"] is None:
                keepax = [i for i, ix in enumerate(x.indices) if ix.size_total != 1]
                bad = [i for i, ix in enumerate(x.indices)
                       if ix.size_total == 1 and list(ix.chargemap)[0] != gen.py_combine(sym, [])]
                if bad:
                    exp = "raise"
                else:
                    exp = D.reshape([x.indices[i].size_total for i in keepax])
                    exp_idx = [x.indices[i] for i in keepax]
            else:
                exp = np.squeeze(D, axis=pos)
                exp_idx = [ix for i, ix in enumerate(x.indices) if i != pos]
                big = [i for i, ix in enumerate(x.indices) if ix.size_total > 1]
                if big and rng.random() < 0.3:
                    # name an axis of size > 1 instead (numpy raises): in particular an axis whose index has ONE
                    # charge, the identity, with size > 1 — "one charge" is not "size one"
                    import symmray as sr
                    zero = gen.py_combine(sym, [])
                    q = rng.choice(big)
                    if rng.random() < 0.7:
                        d_ = rng.randint(2, 3)
                        idx2 = list(x.indices)
                        idx2[q] = sr.BlockIndex({zero: d_}, dual=idx2[q].dual)
                        x = gen.rand_array(rng, sym, indices=idx2, static=static, dtype=dtype, keep=keep, charge=x.charge)
                        env = {"x": x}
                        D = oracle.dense(x)
                    p = dict(p, axis=[q])
                    exp = "raise"
        elif op == "expand_dims":
            pos = rng.randint(0, x.ndim)
            p = {"axis": pos if rng.random() < 0.7 else pos - x.ndim - 1}
            exp = np.expand_dims(D, pos)
            exp_idx = None  # new index table checked through the model; values through shape
        elif op in ("smul", "sdiv"):
            s = rng.choice([2, -1, 4, -2])
            p = {"scalar": s}
            exp = D * s if op == "smul" else D / s
        elif op == "neg":
            exp = -D
        elif op in ("add", "sub", "mul"):
            y = _same_tables(rng, x, rng.choice([0.4, 1.0]), dtype)
            if rng.random() < 0.3:
                y = gen.rand_array(rng, sym, indices=x.indices, charge=x.charge, static=static, dtype=dtype, keep=2.0)
                for s in list(y.blocks):
                    if s not in x.blocks:
                        del y.blocks[s]
                for s in list(x.blocks):
                    if s not in y.blocks:
                        y.blocks[s] = gen.rand_block(rng, np.shape(x.blocks[s]), dtype)
            # the two operands store their sectors in independent dict orders
            items = list(y.blocks.items())
            rng.shuffle(items)
            y.blocks.clear()
            y.blocks.update(items)
            env["y"] = y
            ins = ["x", "y"]
            # augmented form on a copy: raises iff the operator raises, otherwise the same value; y untouched
            import operator as _op
            try:
                want_ip = ("ok", ser.canon_array(ser.enc_array({"add": _op.add, "sub": _op.sub, "mul": _op.mul}[op](x, y))))
            except Exception as e_:  # noqa
                want_ip = ("raise", type(e_).__name__)
            z_ = x.copy()
            y0_ = ser.canon_array(ser.enc_array(y), drop_zero=False)
            try:
                z_ = {"add": _op.iadd, "sub": _op.isub, "mul": _op.imul}[op](z_, y)
                got_ip = ("ok", ser.canon_array(ser.enc_array(z_)))
            except Exception as e_:  # noqa
                got_ip = ("raise", type(e_).__name__)
            if got_ip != want_ip:
                ip_problem = (f"x {dict(add='+', sub='-', mul='*')[op]}= y gives {got_ip[0]} "
                              f"{got_ip[1] if got_ip[0] == 'raise' else ''} but x {dict(add='+', sub='-', mul='*')[op]} y gives "
                              f"{want_ip[0]} {want_ip[1] if want_ip[0] == 'raise' else '(a different value)'}")
            elif ser.canon_array(ser.enc_array(y), drop_zero=False) != y0_:
                ip_problem = "the augmented operator modified its right operand"
            else:
                ip_problem = None
            E = oracle.dense(y)
            exp = {"add": D + E, "sub": D - E, "mul": D * E}[op]
            nontrivial = set(x.blocks) != set(y.blocks)
            if op == "sub" and set(x.blocks) != set(y.blocks):
                exp = "raise-or-equal"
        elif op == "multiply_diagonal":
            ax = rng.randrange(x.ndim)
            v = gen.rand_vec(rng, x.indices[ax], dtype=dtype, keep=rng.choice([0.5, 1.0]))
            env["v"] = v
            ins = ["x", "v"]
            p = {"axis": ax}
            vd = np.zeros(x.indices[ax].size_total, dtype="complex128")
            for c, st, d in oracle.axis_layout(x.indices[ax]):
                if c in v.blocks:
                    vd[st:st + d] = v.blocks[c]
            shp = [1] * x.ndim
            shp[ax] = -1
            exp = D * vd.reshape(shp)
            nontrivial = len(v.blocks) < len(x.indices[ax].chargemap)
        elif op == "sum":
            exp = D.sum()
        elif op == "norm2":
            exp = round(float((D.real ** 2 + D.imag ** 2).sum()))
        elif op == "abs":
            exp = np.abs(D)
        elif op == "to_dense":
            exp = D
        steps = [{"out": ["r"], "op": op, "in": ins, "params": p}]
        if op == "add" and rng.random() < 0.5:
            # mixed element types: a real operand plus a complex one with other stored sectors, then a
            # second operation on the (mixed-dtype) sum
            other = "complex128" if not dtype.startswith("complex") else "float64"
            y2 = gen.rand_array(rng, sym, indices=x.indices, charge=x.charge, static=static, dtype=other,
                                keep=rng.choice([0.4, 0.7]), min_blocks=0)
            env["y"] = y2
            E = oracle.dense(y2)
            op2 = rng.choice(["conj", "dagger", "neg", "transpose"])
            p2 = {}
            Z = D + E
            idx2 = list(x.indices)
            ch2 = x.charge
            if op2 == "conj":
                Z2 = np.conj(Z); idx2 = [ix.conj() for ix in idx2]; ch2 = gen.py_neg(sym, ch2)
            elif op2 == "dagger":
                Z2 = np.conj(np.transpose(Z)); idx2 = [ix.conj() for ix in idx2][::-1]; ch2 = gen.py_neg(sym, ch2)
            elif op2 == "neg":
                Z2 = -Z
            else:
                perm = list(range(x.ndim)); rng.shuffle(perm); p2 = {"axes": perm}
                Z2 = np.transpose(Z, perm); idx2 = [idx2[q] for q in perm]
            steps = [{"out": ["z"], "op": "add", "in": ["x", "y"], "params": {}},
                     {"out": ["r"], "op": op2, "in": ["z"], "params": p2}]
            res, env2 = impl.run_prog(env, steps)
            if all("ok" in r for r in res):
                orc = _cmp_dense(env2["r"], Z2, idx2, ch2)
            else:
                orc = f"{op2} after add raised {[r.get('msg') for r in res if 'raise' in r]}"
            meta = dict(sym=sym, static=static, dtype=dtype, op="add+" + op2, entry="method")
            out.append(dict(case=_mk_case(env, steps), impl=stream.strip_py(res), oracle=orc, meta=meta,
                            nontrivial=set(x.blocks) != set(y2.blocks), op="mixed", triggers=[]))
            continue
        if op == "abs":
            # not a protocol op: direct oracle only
            try:
                r = {"method": lambda: x.abs(), "function": lambda: sr.abs(x), "autoray": lambda: ar.do("abs", x)}[entry]()
                orc = _cmp_dense(r, exp, exp_idx, exp_charge)
            except Exception as e:  # noqa
                orc = f"abs raised {type(e).__name__}: {e}"
            steps = [{"out": ["r"], "op": "neg", "in": ["x"], "params": {}}]
            res, env2 = impl.run_prog(env, steps)
        else:
            if op in ("dagger", "smul", "sdiv", "neg", "add", "sub", "mul", "norm2", "to_dense"):
                entry = "method"
            res, env2 = impl.run_prog(env, steps, entry=entry)
            if not x.blocks and op in ("sum", "norm2", "to_dense"):
                orc = None  # reductions over no blocks are undefined (raise); not claimed
            elif "ok" in res[0]:
                r = env2["r"]
                if isinstance(exp, str) and exp == "raise":
                    orc = "squeeze of an axis that cannot be squeezed (non-zero charge, or size > 1) did not raise"
                elif isinstance(exp, str):
                    orc = _cmp_dense(r, D - oracle.dense(env["y"]), exp_idx, exp_charge)
                elif op in ("sum", "norm2"):
                    if complex(r) != complex(exp):
                        orc = f"{op} {r} != dense {exp}"
                elif op == "to_dense":
                    if np.shape(r) != exp.shape or not np.array_equal(np.asarray(r), exp):
                        orc = "to_dense differs from the independent densification"
                elif op == "expand_dims":
                    if not np.array_equal(oracle.dense(r), exp):
                        orc = "expand_dims changed values"
                    elif r.indices[p["axis"] % (x.ndim + 1)].size_total != 1:
                        orc = "expand_dims did not insert a size-one axis"
                else:
                    orc = _cmp_dense(r, exp, exp_idx, exp_charge)
            else:
                if isinstance(exp, str):
                    orc = None  # raising is an accepted outcome here
                else:
                    orc = f"{op} raised {res[0].get('msg')}"
        if orc is None and op in ("add", "sub", "mul") and ip_problem:
            orc = ip_problem
        meta = dict(sym=sym, static=static, dtype=dtype, op=op, entry=entry)
        out.append(dict(case=_mk_case(env, steps), impl=stream.strip_py(res), oracle=orc, meta=meta,
                        nontrivial=bool(nontrivial), op=op, triggers=[]))
    return out


def vec_cases(seed, chunk, n, tier):
    """BlockVector arithmetic and elementwise functions against numpy on the concatenated vector"""
    import autoray as ar
    import symmray as sr

    rng = random.Random(seed * 7919 + chunk * 104729 + 88)
    fails = []
    count = 0
    for _ in range(n):
        sym = rng.choice(gen.SYMS)
        ix = gen.rand_index(rng, sym, max_charges=4, max_size=3)
        dtype = rng.choice(["float64", "float32"])
        v = sr.BlockVector({c: gen.rand_block(rng, (d,), dtype, lo=1, hi=4) for c, d in ix.chargemap.items()})
        wit = [(c, gen.rand_block(rng, (d,), dtype, lo=1, hi=4)) for c, d in ix.chargemap.items()]
        rng.shuffle(wit)  # same charges as v, stored in an independent dict order
        w = sr.BlockVector(dict(wit))
        dv = np.concatenate([v.blocks[c] for c in sorted(v.blocks)])
        dw = np.concatenate([w.blocks[c] for c in sorted(w.blocks)])
        checks = []
        for f in VEC_FUNCS:
            for entry in ("function", "autoray"):
                count += 1
                try:
                    if f == "clip":
                        r = sr.clip(v, 2, 3) if entry == "function" else ar.do("clip", v, 2, 3)
                        e = np.clip(dv, 2, 3)
                    else:
                        r = getattr(sr, f)(v) if entry == "function" else ar.do(f, v)
                        e = getattr(np, f)(dv)
                    got = r.to_dense() if isinstance(r, sr.BlockVector) else np.asarray(r)
                    if not np.array_equal(got, e):
                        checks.append(f"{f} via {entry}: differs from numpy on the dense vector")
                except RecursionError:
                    checks.append(f"{f} via {entry}: unbounded recursion")
                except Exception as ex:  # noqa
                    checks.append(f"{f} via {entry}: raised {type(ex).__name__}: {ex}")
        s = rng.choice([2.0, 4.0, -2.0])
        # in-place forms must give the out-of-place value and leave the other operand alone
        def _ip(fn):
            z = v.copy()
            r = fn(z)
            return r
        import operator as _op
        inplace = {
            "v+=w": (lambda: _ip(lambda z: _op.iadd(z, w)), dv + dw), "v-=w": (lambda: _ip(lambda z: _op.isub(z, w)), dv - dw),
            "v*=w": (lambda: _ip(lambda z: _op.imul(z, w)), dv * dw), "v/=w": (lambda: _ip(lambda z: _op.itruediv(z, w)), dv / dw),
            "v+=s": (lambda: _ip(lambda z: _op.iadd(z, 2.0)), dv + 2.0), "v-=s": (lambda: _ip(lambda z: _op.isub(z, 2.0)), dv - 2.0),
            "v*=s": (lambda: _ip(lambda z: _op.imul(z, 2.0)), dv * 2.0), "v/=s": (lambda: _ip(lambda z: _op.itruediv(z, 2.0)), dv / 2.0),
            "v**=2": (lambda: _ip(lambda z: _op.ipow(z, 2)), dv ** 2),
        }
        for name, (fn, e) in inplace.items():
            count += 1
            try:
                w0 = np.concatenate([w.blocks[c] for c in sorted(w.blocks)]).copy()
                got = fn().to_dense()
                if not np.array_equal(got, e):
                    checks.append(f"{name}: differs from numpy on the dense vector")
                if not np.array_equal(np.concatenate([w.blocks[c] for c in sorted(w.blocks)]), w0) or \
                        not np.array_equal(np.concatenate([v.blocks[c] for c in sorted(v.blocks)]), dv):
                    checks.append(f"{name}: modified an operand it was not asked to modify")
            except Exception as ex:  # noqa
                checks.append(f"{name}: raised {type(ex).__name__}: {ex}")
        ariths = {
            "v+w": (lambda: v + w, dv + dw), "v-w": (lambda: v - w, dv - dw), "v*w": (lambda: v * w, dv * dw),
            "v/w": (lambda: v / w, dv / dw), "v+s": (lambda: v + s, dv + s), "s+v": (lambda: s + v, s + dv),
            "v-s": (lambda: v - s, dv - s), "s-v": (lambda: s - v, s - dv), "v*s": (lambda: v * s, dv * s),
            "s*v": (lambda: s * v, s * dv), "v/s": (lambda: v / s, dv / s), "s/v": (lambda: s / v, s / dv),
            "v**2": (lambda: v ** 2, dv ** 2), "-v": (lambda: -v, -dv), "2**v": (lambda: 2 ** v, 2 ** dv),
        }
        for name, (fn, e) in ariths.items():
            count += 1
            try:
                got = fn().to_dense()
                if not np.array_equal(got, e):
                    checks.append(f"{name}: differs from numpy on the dense vector")
            except Exception as ex:  # noqa
                checks.append(f"{name}: raised {type(ex).__name__}: {ex}")
        for c in checks:
            fails.append(dict(what=c, sym=sym, chargemap={str(k): d for k, d in ix.chargemap.items()},
                              v={str(k): b.tolist() for k, b in v.blocks.items()},
                              w={str(k): b.tolist() for k, b in w.blocks.items()}))
    return count, fails


def run(ctx):
    n = 8000 if ctx.tier == "quick" else 50000
    stream.run_stream(ctx, "dense", "harness.props.c08", "gen_cases", n, per_chunk=100,
                      canon_kw=dict(drop_zero=True))
    nv = 64 if ctx.tier == "quick" else 1600
    res = ctx.pmap("harness.props.c08", "vec_cases", [(ctx.seed, k, nv // 16, ctx.tier) for k in range(16)])
    for count, fails in res:
        ctx.evaluations += count
        ctx.stat("vector.checks", count)
        for f in fails:
            ctx.violation("blockvector: " + f["what"], f, op="blockvector", triggers=[f["what"].split(":")[0]])
    ctx.mark_nontrivial("blockvector-functions")
    # sparsity management and scalar protocol (fill/drop_missing_blocks, get_sparsity, allclose, item, params)
    c08_sparse.run_c08_sparse(ctx)


def replay(ctx, payload):
    if payload.get("case", {}).get("kind") == "sparse":
        return c08_sparse.replay_c08_sparse(ctx, payload)
    return stream.replay(ctx, payload, canon_kw=dict(drop_zero=True))
