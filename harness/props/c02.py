"""C02 — Abelian contraction equals dense contraction."""

import random

import numpy as np

from .. import gen, impl, oracle, ser, stream

ID = "C02"
LEVEL = "proof"
PROPS_MODULE = "SymmModel.Props.C02All5"
THEOREMS = [
    "SymmModel.C02.tensordotBlockwise_charge",
    "SymmModel.C02.tensordotBlockwise_sectors",
    "SymmModel.C02.tensordotBlockwise_sectors_distinct",
    "SymmModel.C02.tensordotBlockwise_sectors_order",
    "SymmModel.C02.tensordotBlockwise_elem",
    "SymmModel.C02.tensordotBlockwise_elem_split",
    "SymmModel.C02.tensordotBlockwise_elem_dense",
    "SymmModel.C02.tensordot_scalar",
    "SymmModel.C02.tensordotA_blockwise",
    "SymmModel.C02.freeAxes_eq_without",
    "SymmModel.C02.parseAxes_pair_ok",
    "SymmModel.C02.normAxis_spec",
    "SymmModel.C02.parseAxes_int_ok",
    "SymmModel.C02.matmulA_matrices",
    "SymmModel.C02.tensordotBlockwise_elem_GRat",
    "SymmModel.C02.tensordotUnpruned_same_elem",
    "SymmModel.C02.tensordotBlockwise_toDense",
    "SymmModel.C02.tensordotBlockwise_dense_entry",
    "SymmModel.C02.tensordotBlockwise_shapes_unpruned",
    "SymmModel.C02.tensordotBlockwise_shapes",
    "SymmModel.C02.traceA_elem",
    "SymmModel.C02.traceA_toDense",
    "SymmModel.C02.einsumK_get",
    "SymmModel.C02.einsumA_elem",
    "SymmModel.C02.einPerm_ok",
    "SymmModel.C02.matmulA_elem",
    "SymmModel.C02.matmulA_toDense",
    "SymmModel.C02.tensordot_outer",
    "SymmModel.C06.tensordotFused_obs_eq_blockwise",
    "SymmModel.C06.tensordotFused_extra_blocks_zero",
    "SymmModel.C06.tensordotA_modes_agree",
    "SymmModel.C06.tensordotFused_empty_alignment",
    "SymmModel.C06.tensordotA_kind_blind",
    "SymmModel.C06.tensordotA_synced_modes",
    "SymmModel.C06.tensordotFused_obs_eq_blockwise_all",
    "SymmModel.C06.tensordotA_modes_agree_all",
    "SymmModel.C02.einsumA_toDense",
    "SymmModel.C02.einsumA_toDense_eq"
]
LEAN_FILES = ["SymmModel.Props.C02", "SymmModel.Proofs.TdotDense", "SymmModel.Proofs.TdotLemmas", "SymmModel.Proofs.Accum", "SymmModel.Proofs.BlkLemmas", "SymmModel.Props.C02b", "SymmModel.Props.C02All", "SymmModel.Proofs.TdotMore", "SymmModel.Props.C06b", "SymmModel.Props.C02All2", "SymmModel.Props.C06c", "SymmModel.Props.C02All3", "SymmModel.Props.C06d", "SymmModel.Props.C02All4", "SymmModel.Props.C02c", "SymmModel.Props.C02All5", "SymmModel.Proofs.Dense5b", "SymmModel.Proofs.Dense5c", "SymmModel.Proofs.Dense5d", "SymmModel.Proofs.Dense5e"]
PLANNED = []
RULE = ("random contractible pairs of abelian arrays over Z2/U1/Z2Z2/U1U1/Z4 (static and generic classes), "
        "0..ndim contracted axes at random positions incl. negative axes, sparse operands, real and complex "
        "data, modes auto/fused/blockwise through method/function/autoray entry points; matmul (values, charge, validity), trace, einsum; "
        "cross-sparse pairs (>= 2 contracted legs, equal sector sizes, operands storing different contracted sub-sectors). "
        "non-trivial: >=1 contracted axis and (>=2 aligned block pairs or a missing valid sector)")
ANCHORS = {"abelian_core.py": ["_tensordot_blockwise", "drop_misaligned_sectors", "_tensordot_via_fused",
                               "tensordot_abelian", "trace", "einsum", "__matmul__"]}
ASSUMPTIONS = ["numpy tensordot/einsum/transpose are exact on small Gaussian-integer data"]


def _mk_case(env, steps):
    return {"kind": "prog", "env": {k: ser.enc_val(v) for k, v in env.items()}, "steps": steps}


def _dense_tensordot(a, b, xa, xb):
    A = oracle.dense(a)
    B = oracle.dense(b)
    return np.tensordot(A, B, axes=([x % a.ndim for x in xa], [x % b.ndim for x in xb]))


def gen_cases(seed, chunk, n, tier):
    import symmray as sr

    rng = random.Random(seed * 7919 + chunk * 104729 + 2)
    out = []
    for _ in range(n):
        sym = rng.choice(gen.SYMS)
        static = rng.random() < 0.7
        dtype = rng.choice(ser.DTYPES)
        keep = rng.choice([0.3, 0.6, 1.0])
        kind = rng.choice(["tensordot"] * 10 + ["crosssparse"] * 3 + ["matmul", "trace", "einsum", "noalign"] * 2 + ["malformed"])
        meta = dict(sym=sym, static=static, dtype=dtype, kind=kind)
        orc = None
        nontrivial = False
        if kind == "malformed":
            # calls the library documents as errors: both sides must reject them
            a = gen.rand_array(rng, sym, ndim=3, static=static, dtype=dtype, keep=keep)
            b = gen.rand_array(rng, sym, ndim=2, static=static, dtype=dtype, keep=keep)
            which = rng.choice(["axes_len", "matmul3d", "trace3d"])
            if which == "axes_len":
                steps = [{"out": ["c"], "op": "tensordot", "in": ["a", "b"], "params": {"axes": [[0, 1], [0]]}}]
            elif which == "matmul3d":
                steps = [{"out": ["c"], "op": "matmul", "in": ["a", "b"], "params": {}}]
            else:
                steps = [{"out": ["c"], "op": "trace", "in": ["a"], "params": {}}]
            env = {"a": a, "b": b}
            res, env2 = impl.run_prog(env, steps)
            orc = None if "raise" in res[0] else f"malformed call ({which}) was accepted"
            meta.update(which=which)
            out.append(dict(case=_mk_case(env, steps), impl=stream.strip_py(res), oracle=orc, meta=meta,
                            nontrivial=False, op=kind, triggers=[]))
            continue
        if kind in ("tensordot", "noalign", "crosssparse"):
            if kind == "crosssparse":
                # >= 2 contracted legs, all sector sizes equal, sparse: the two operands store DIFFERENT
                # combinations of contracted charges under the same fused charge (sizes coincide, so a
                # strategy that pairs them by fused charge alone multiplies unrelated blocks silently)
                a, b, xa, xb = gen.rand_contractible(rng, sym, static=static, dtype=dtype,
                                                     keep=rng.choice([0.3, 0.5]), max_ndim=4,
                                                     ncon=rng.choice([2, 2, 3]), max_size=1)
            else:
                a, b, xa, xb = gen.rand_contractible(rng, sym, static=static, dtype=dtype, keep=keep,
                                                     share_objects=rng.random() < 0.2)
            if kind == "noalign" and xa and a.blocks and b.blocks:
                # keep only blocks of a with one contracted charge pattern and of b with another
                ka = {tuple(s[i] for i in xa) for s in a.blocks}
                kb = {tuple(s[i] for i in xb) for s in b.blocks}
                if len(ka) > 1:
                    k0 = sorted(ka)[0]
                    for s in [s for s in a.blocks if tuple(s[i] for i in xa) != k0]:
                        del a.blocks[s]
                    for s in [s for s in b.blocks if tuple(s[i] for i in xb) == k0]:
                        del b.blocks[s]
            mode = rng.choice(["auto", "fused", "blockwise", None])
            entry = rng.choice(["function", "autoray"])
            xa2 = [x - a.ndim if rng.random() < 0.3 else x for x in xa]
            xb2 = [x - b.ndim if rng.random() < 0.3 else x for x in xb]
            use_int = False
            if xa == list(range(a.ndim - len(xa), a.ndim)) and xb == list(range(len(xb))) and rng.random() < 0.5:
                axes = len(xa)
                use_int = True
            else:
                axes = [xa2, xb2]
            p = {"axes": axes}
            if mode is not None:
                p["mode"] = mode
                if rng.random() < 0.2:
                    p["via_default"] = True
            steps = [{"out": ["c"], "op": "tensordot", "in": ["a", "b"], "params": p}]
            env = {"a": a, "b": b}
            res, env2 = impl.run_prog(env, steps, entry=entry)
            meta.update(mode=str(mode), entry=entry, ncon=len(xa), int_axes=use_int)
            if "ok" in res[0]:
                c = env2["c"]
                exp = _dense_tensordot(a, b, xa, xb)
                full = [ix for i, ix in enumerate(a.indices) if i not in xa] + \
                       [ix for i, ix in enumerate(b.indices) if i not in xb]
                orc = oracle.embed_compare(c, exp, full)
                if orc is None and c.charge != gen.py_combine(sym, [a.charge, b.charge]):
                    orc = f"result charge {c.charge} is not the combination of {a.charge} and {b.charge}"
                if orc is None and mode in (None, "auto", "fused") and xa:
                    # call history: the same contraction of the conjugated operands afterwards (their index
                    # objects derive from ones the fused path has already seen) against the dense contraction
                    cc = sr.tensordot(a.conj(), b.conj(), (tuple(xa), tuple(xb)), preserve_array=True,
                                      **({"mode": mode} if mode else {}))
                    orc = oracle.embed_compare(cc, np.conj(exp), [ix.conj() for ix in full])
                    if orc is not None:
                        orc = "contraction of the conjugated operands after the original ones: " + orc
                    elif oracle.py_valid(cc):
                        orc = "contraction of the conjugated operands after the original ones is invalid: " + \
                              str(oracle.py_valid(cc))
                if orc is None and mode != "fused" and len(xa) == a.ndim == b.ndim:
                    # scalar form of the same call
                    s = sr.tensordot(a, b, (tuple(xa), tuple(xb)), **({"mode": mode} if mode else {}))
                    if complex(s) != complex(exp):
                        orc = f"scalar result {s} != dense contraction {exp}"
            else:
                orc = f"tensordot raised {res[0].get('msg')}"
            pairs = sum(1 for sa in a.blocks for sb in b.blocks
                        if tuple(sa[i] for i in xa) == tuple(sb[i] for i in xb))
            nontrivial = len(xa) >= 1 and (pairs >= 2 or keep < 1.0)
        elif kind == "matmul":
            na, nb = rng.choice([(1, 1), (1, 2), (2, 1), (2, 2)])
            shared = gen.rand_index(rng, sym)
            ia = [gen.rand_index(rng, sym) for _ in range(na - 1)] + [shared]
            ib = [shared.conj()] + [gen.rand_index(rng, sym) for _ in range(nb - 1)]
            a = gen.rand_array(rng, sym, indices=ia, static=static, dtype=dtype, keep=keep)
            b = gen.rand_array(rng, sym, indices=ib, static=static, dtype=dtype, keep=keep)
            steps = [{"out": ["c"], "op": "matmul", "in": ["a", "b"], "params": {}}]
            env = {"a": a, "b": b}
            res, env2 = impl.run_prog(env, steps)
            if "ok" in res[0]:
                exp = np.tensordot(oracle.dense(a), oracle.dense(b), axes=([na - 1], [0]))
                c = env2["c"]
                if na == nb == 1:
                    orc = None if complex(c) == complex(exp) else f"matmul scalar {c} != {complex(exp)}"
                else:
                    orc = oracle.embed_compare(c, exp, ia[:-1] + ib[1:])
                    if orc is None and c.charge != gen.py_combine(sym, [a.charge, b.charge]):
                        orc = f"matmul result charge {c.charge} is not the combination of {a.charge} and {b.charge}"
                    if orc is None and oracle.py_valid(c):
                        orc = "matmul result is not a valid array: " + str(oracle.py_valid(c))
            else:
                orc = f"matmul raised {res[0].get('msg')}"
            nontrivial = len(a.blocks) >= 2 or keep < 1.0
        elif kind == "trace":
            ix = gen.rand_index(rng, sym)
            if rng.random() < 0.3:
                # the SAME index object on both traced axes (same direction): the diagonal sectors (c, c) then
                # carry the charge of c combined with itself, which is not the identity for U1 / U1U1 / Z4
                a = gen.rand_array(rng, sym, indices=[ix, ix], static=static, dtype=dtype, keep=keep)
                if a.blocks is not None and rng.random() < 0.7:
                    c = rng.choice(sorted(ix.chargemap))
                    a = gen.rand_array(rng, sym, indices=[ix, ix], static=static, dtype=dtype, keep=1.0,
                                       charge=gen.py_sector_charge(sym, (c, c), [ix.dual, ix.dual]))
                meta["same_object_axes"] = True
            else:
                a = gen.rand_array(rng, sym, indices=[ix, ix.conj()], static=static, dtype=dtype, keep=keep,
                                   charge=gen.py_combine(sym, []) if rng.random() < 0.5 else None)
            entry = rng.choice(["method", "function", "autoray"])
            steps = [{"out": ["t"], "op": "trace", "in": ["a"], "params": {}}]
            env = {"a": a}
            b = None
            res, env2 = impl.run_prog(env, steps, entry=entry)
            meta.update(entry=entry)
            if "ok" in res[0]:
                exp = np.trace(oracle.dense(a))
                if complex(env2["t"]) != complex(exp):
                    orc = f"trace {env2['t']} != dense trace {exp}"
            else:
                orc = f"trace raised {res[0].get('msg')}"
            nontrivial = len(a.blocks) >= 2
        else:  # einsum: trace pairs + permutation
            npairs = rng.randint(0, 2)
            nfree = rng.randint(0 if npairs else 1, 2 if npairs == 2 else (3 if npairs == 1 else 4))
            labels = []
            idxs = []
            for q in range(npairs):
                ix = gen.rand_index(rng, sym)
                labels += [q, q]
                idxs += [ix, ix.conj()]
            for q in range(nfree):
                labels.append(npairs + q)
                idxs.append(gen.rand_index(rng, sym))
            order = list(range(len(labels)))
            rng.shuffle(order)
            lhs = [labels[i] for i in order]
            ia = [idxs[i] for i in order]
            rhs = [npairs + q for q in range(nfree)]
            rng.shuffle(rhs)
            a = gen.rand_array(rng, sym, indices=ia, static=static, dtype=dtype, keep=keep)
            entry = rng.choice(["method", "function"])
            steps = [{"out": ["c"], "op": "einsum", "in": ["a"], "params": {"lhs": lhs, "rhs": rhs}}]
            env = {"a": a}
            b = None
            res, env2 = impl.run_prog(env, steps, entry=entry)
            meta.update(entry=entry, npairs=npairs)
            if "ok" in res[0]:
                eq = "".join(chr(97 + q) for q in lhs) + "->" + "".join(chr(97 + q) for q in rhs)
                exp = np.einsum(eq, oracle.dense(a))
                full = [ia[lhs.index(q)] for q in rhs]
                orc = oracle.embed_compare(env2["c"], exp, full)
            else:
                orc = f"einsum raised {res[0].get('msg')}"
            nontrivial = npairs >= 1 and len(a.blocks) >= 2
        out.append(dict(case=_mk_case(env, steps), impl=stream.strip_py(res), oracle=orc, meta=meta,
                        nontrivial=nontrivial, op=kind, triggers=[]))
    return out


def run(ctx):
    n = 8000 if ctx.tier == "quick" else 60000
    stream.run_stream(ctx, "contract", "harness.props.c02", "gen_cases", n, per_chunk=80,
                      canon_kw=dict(drop_zero=True))


def replay(ctx, payload):
    return stream.replay(ctx, payload, canon_kw=dict(drop_zero=True))
