"""C12 — Spectra and solutions equal those of the dense matrix."""

import random

import numpy as np

from .. import gen, impl, oracle, ser, stream
from .c11 import make_matrix, tol_of

ID = "C12"
LEVEL = "proof"
PROPS_MODULE = "SymmModel.Props.C12All"
THEOREMS = [
    "SymmModel.C12.matrix_sector_injective",
    "SymmModel.C12.column_keyed_tables_never_overwrite",
    "SymmModel.C12.svd_values_one_per_block",
    "SymmModel.C12.eigh_values_one_per_block",
    "SymmModel.C12.toDense_is_direct_sum",
    "SymmModel.C12.toDense_entry",
    "SymmModel.C12.norm_sq_blocks",
    "SymmModel.C12.norm_sq_blocks_valid",
    "SymmModel.C12.norm_sq_gauge",
    "SymmModel.C12.norm_sq_phaseSync",
    "SymmModel.C08.norm_sq_eq_dense",
    "SymmModel.C08.norm_sq_eq_dense_of_valid",
    "SymmModel.C08.sum_locateAll_reindex",
    "SymmModel.C12.charpoly_blockDiagonal'",
    "SymmModel.C12.charpoly_reindex",
    "SymmModel.C12.eigenvalues_blockDiagonal'",
    "SymmModel.C12.charpoly_of_blockDiag",
    "SymmModel.C12.toDense_block_entries",
    "SymmModel.C12.toDense_eq_blockDiagonal",
    "SymmModel.C12.eigh_charpoly",
    "SymmModel.C12.eigh_charpoly_fin",
    "SymmModel.C12.eigh_eigenvalues",
    "SymmModel.C12.sector_missing",
    "SymmModel.C12.sector_stored",
    "SymmModel.C12.gram_blockDiagonal",
    "SymmModel.C12.gram_charpoly",
    "SymmModel.C12.gram_block_stored",
    "SymmModel.C12.gram_block_missing",
    "SymmModel.C12.squared_singular_values",
    "SymmModel.C12.solve_dense",
    "SymmModel.C12.dual_conj",
    "SymmModel.C12.solveCopyK_shapeOk",
    "SymmModel.C12.solveCopyK_solvesOn"
]
LEAN_FILES = ["SymmModel.Props.C12", "SymmModel.Proofs.LinalgLemmas", "SymmModel.Proofs.LinalgFactors", "SymmModel.Proofs.LinalgDense", "SymmModel.Proofs.LinalgSolve", "SymmModel.Props.C12All", "SymmModel.Props.C08b", "SymmModel.Proofs.DenseMore", "SymmModel.Props.C12b", "SymmModel.Proofs.Spectrum", "SymmModel.Proofs.SpectrumAxis", "SymmModel.Proofs.SpectrumDense", "SymmModel.Proofs.SpectrumMore", "SymmModel.Proofs.SpectrumBlock", "SymmModel.Props.C12c"]
PLANNED = ["outside the theorems: that LAPACK returns the roots of these characteristic polynomials (numerical validation)"]
RULE = ("random abelian matrices (all symmetries, dualness, charges, block shapes, sparse, real/complex) and "
        "fermionic ones for singular values and norm: singular values as a multiset vs numpy's SVD of an independent "
        "densification (tolerance 1e-9 relative; matrices with exactly known integer singular values included), "
        "eigenvalues of Hermitian charge-zero matrices vs eigvalsh of the dense form on the stored sectors, Frobenius "
        "norm squared exactly (integer data), solutions of linear systems vs numpy.linalg.solve on the dense system. "
        "non-trivial: >= 2 blocks")
ANCHORS = {"linalg.py": ["svd", "eigh", "solve", "norm"], "block_core.py": ["norm"]}
ASSUMPTIONS = ["numpy.linalg (LAPACK) on the dense matrix is the reference; comparisons of spectra are numerical "
               "(validation), the norm comparison is exact"]
TRUSTED_EXTRA = ["'the spectrum of a direct sum is the union of the spectra of the summands' is cited linear algebra, "
                 "not proved in Lean"]


class _Skip(Exception):
    pass


def gen_cases(seed, chunk, n, tier):
    import symmray as sr

    rng = random.Random(seed * 7919 + chunk * 104729 + 12)
    out = []
    for _ in range(n):
        sym = rng.choice(gen.SYMS)
        kind = rng.choice(["svals", "svals", "exact_svals", "eigvals", "norm", "solve"])
        fermi = kind in ("svals", "norm", "exact_svals") and rng.random() < 0.4
        static = rng.random() < 0.7
        dtype = rng.choice(["float64", "complex128"]) if kind != "norm" else rng.choice(ser.DTYPES)
        tol = tol_of(dtype)
        orc = None
        env, steps, name = make_matrix(rng, sym, fermi, static, dtype, hermitian=(kind == "eigvals"))
        if steps:
            r0, env = impl.run_prog(env, steps)
        x = env[name]
        meta = dict(sym=sym, fermi=fermi, static=static, dtype=dtype, kind=kind)
        nontrivial = len(x.blocks) >= 2
        res = []
        psteps = []
        if not x.blocks:
            continue
        try:
            if kind == "exact_svals":
                # replace blocks by P·diag(d)·Q with signed permutations: integer singular values
                want = []
                for s, b in list(x.blocks.items()):
                    m, k = np.shape(b)
                    r = min(m, k)
                    d = [rng.randint(0, 6) for _ in range(r)]
                    blk = np.zeros((m, k))
                    rows = rng.sample(range(m), r)
                    cols = rng.sample(range(k), r)
                    for t in range(r):
                        blk[rows[t], cols[t]] = d[t] * rng.choice([1, -1])
                    x.blocks[s] = blk.astype(dtype)
                    want += [v for v in d if v]
                u, sv, vh = sr.linalg.svd(x)
                got = sorted([round(float(t)) for b in sv.blocks.values() for t in np.asarray(b) if abs(t) > 1e-9],
                             reverse=True)
                if got != sorted(want, reverse=True) or any(
                        abs(float(t) - round(float(t))) > 1e-9 for b in sv.blocks.values() for t in np.asarray(b)):
                    orc = f"singular values {got} are not the exactly known ones {sorted(want, reverse=True)}"
            elif kind == "svals":
                # the spectrum as returned by svd and by the untruncated forms of svd_truncated
                via = rng.choice(["svd", "svd", "trunc_default", "trunc_rank", "trunc_rank+3"])
                if via == "svd":
                    u, sv, vh = sr.linalg.svd(x)
                else:
                    rank = sum(min(np.shape(b)) for b in x.blocks.values())
                    kw = {} if via == "trunc_default" else {"max_bond": rank + (3 if via.endswith("+3") else 0)}
                    u, sv, vh = sr.linalg.svd_truncated(x.copy(), absorb=None, **kw)
                meta["via"] = via
                got = np.sort(np.concatenate([np.asarray(b, dtype=float) for b in sv.blocks.values()]))[::-1]
                D = oracle.dense(x)
                ref = np.linalg.svd(D, compute_uv=False)
                scale = max(1.0, float(ref.max()) if ref.size else 1.0)
                g = got[got > 1e-8 * scale]
                r = ref[ref > 1e-8 * scale]
                if len(g) != len(r) or (len(g) and float(np.abs(g - r).max()) > 1e-8 * scale):
                    orc = f"singular values {np.round(g, 6).tolist()} differ from those of the dense form {np.round(r, 6).tolist()}"
                elif np.any(got < -1e-12):
                    orc = "negative singular value"
            elif kind == "eigvals":
                w, ev = sr.linalg.eigh(x)
                got = np.sort(np.concatenate([np.asarray(b, dtype=float) for b in w.blocks.values()]))
                D = oracle.dense(x)
                ref = np.sort(np.linalg.eigvalsh(D))
                scale = max(1.0, float(np.abs(ref).max()))
                # dense form has extra zero eigenvalues for the sectors that are not stored
                rem = list(ref)
                for g in got:
                    j = int(np.argmin([abs(g - t) for t in rem]))
                    if abs(rem[j] - g) > 1e-8 * scale:
                        orc = f"eigenvalue {g} is not an eigenvalue of the dense form"
                        break
                    rem.pop(j)
                if orc is None and any(abs(t) > 1e-8 * scale for t in rem):
                    orc = "the dense form has non-zero eigenvalues that were not returned"
            elif kind == "norm":
                if rng.random() < 0.3 and x.blocks and not steps:
                    # an array with MIXED block element types, as ordinary arithmetic produces it: real x plus a
                    # sparser complex y keeps x's untouched blocks real (in either operand order)
                    yb = {s_: (np.asarray(b_) * (1 + 2j)).astype("complex128") for s_, b_ in x.blocks.items()
                          if rng.random() < 0.5}
                    xr = x.copy()
                    xr.apply_to_arrays(lambda b_: np.asarray(b_).real.astype("float64"))
                    ycl = x.copy_with(blocks=yb)
                    x = (xr + ycl) if rng.random() < 0.7 else (ycl + xr)
                    env = {name: x}
                    mixed = True
                nv = x.norm()
                if abs(complex(nv).imag) > 1e-9:
                    raise ValueError(f"norm() returned the non-real value {nv}")
                got = float(complex(nv).real) ** 2
                D = oracle.dense(x)
                want = float((D.real ** 2 + D.imag ** 2).sum())
                if abs(got - want) > 2e-5 * max(1.0, want):
                    orc = f"norm()**2 = {got} but the dense Frobenius norm squared is {want}"
                elif abs(float(sr.linalg.norm(x)) - float(x.norm())) > 0:
                    orc = "linalg.norm differs from the method"
            else:
                if rng.random() < 0.5:
                    ix = gen.rand_index(rng, sym, max_charges=3, max_size=3)
                    a = gen.rand_array(rng, sym, indices=[ix, ix.conj()], static=static, dtype=dtype, keep=1.0,
                                       charge=gen.py_combine(sym, []))
                    if len(ix.chargemap) >= 2 and rng.random() < 0.5:
                        # a matrix RESTRICTED after construction: the blocks of one charge are removed and the
                        # index tables synchronised (new index objects derived from ones already conjugated)
                        cdrop = rng.choice(sorted(ix.chargemap))
                        for s_ in [s_ for s_ in a.blocks if cdrop in s_]:
                            del a.blocks[s_]
                        a = a.sync_charges() if rng.random() < 0.5 else a.sync_charges(inplace=True)
                        restricted = True
                else:
                    # not block diagonal in the charge labels: arbitrary charge / equal directions; all
                    # charge sizes equal so that every block is square
                    d = rng.randint(1, 3)
                    i1 = sr.BlockIndex({c: d for c in gen.rand_index(rng, sym).chargemap}, dual=rng.random() < 0.5)
                    i2 = sr.BlockIndex({c: d for c in gen.rand_index(rng, sym).chargemap}, dual=rng.random() < 0.5)
                    a = gen.rand_array(rng, sym, indices=[i1, i2], static=static, dtype=dtype, keep=1.0)
                for s, b in list(a.blocks.items()):
                    b = np.array(b)
                    a.blocks[s] = (b + 8 * np.eye(b.shape[0])).astype(dtype)
                rhs = gen.rand_array(rng, sym, indices=[a.indices[0]], static=static, dtype=dtype, keep=1.0)
                x = a
                sol = sr.linalg.solve(a, rhs)
                Da = oracle.dense(a)
                if Da.shape[0] != Da.shape[1] or abs(np.linalg.det(Da)) < 1e-6:
                    # only the stored sectors are solved for: compare on the dense system restricted to them
                    # through the residual a·x = b on the rows that a reaches
                    got = np.zeros(a.indices[1].size_total, dtype="complex128")
                    for c, st, d in oracle.axis_layout(a.indices[1]):
                        if (c,) in sol.blocks:
                            got[st:st + d] = sol.blocks[(c,)]
                    rows = np.abs(Da).sum(axis=1) > 0
                    if float(np.abs((Da @ got - oracle.dense(rhs))[rows]).max(initial=0.0)) > 1e-8:
                        orc = "a·x differs from b on the rows that a reaches (dense residual)"
                    raise _Skip()
                ref = np.linalg.solve(Da, oracle.dense(rhs))
                # solution lives on a.indices[1].conj(), dense order = sorted charges of that index
                got = np.zeros(a.indices[1].size_total, dtype="complex128")
                for c, st, d in oracle.axis_layout(a.indices[1]):
                    if (c,) in sol.blocks:
                        got[st:st + d] = sol.blocks[(c,)]
                if float(np.abs(got - ref).max()) > 1e-8 * max(1.0, float(np.abs(ref).max())):
                    orc = "the solution differs from numpy.linalg.solve on the dense system"
                else:
                    # the solution vector as an array: its own index must be the conjugate of a's column index, so
                    # that its dense form is the dense solution
                    want_ix = a.indices[1].conj()
                    if dict(sol.indices[0].chargemap) != dict(want_ix.chargemap) or sol.indices[0].dual != want_ix.dual:
                        orc = (f"the solution's index {dict(sol.indices[0].chargemap)} (dual={sol.indices[0].dual}) is not the "
                               f"conjugate of the matrix's column index {dict(want_ix.chargemap)} (dual={want_ix.dual})")
                    else:
                        ds = np.asarray(sol.to_dense()).astype("complex128")
                        if ds.shape != ref.shape or float(np.abs(ds - ref).max()) > 1e-8 * max(1.0, float(np.abs(ref).max())):
                            orc = "to_dense of the solution differs from numpy.linalg.solve on the dense system"
                nontrivial = len(a.blocks) >= 2
                env = {"x": a}
        except _Skip:
            pass
        except np.linalg.LinAlgError:
            continue
        except Exception as e:  # noqa
            orc = f"{kind} raised {type(e).__name__}: {e}"
        # model side: the norm is exact, so it is diffed; the rest is structure-only through C11
        case_env = {name: ser.enc_val(env[name])} if kind == "norm" and not steps else {}
        if kind == "norm" and not steps:
            psteps = [{"out": ["n"], "op": "norm2", "in": [name], "params": {}}]
            res, _ = impl.run_prog({name: env[name]}, psteps)
        case = {"kind": "prog", "env": case_env, "steps": psteps}
        out.append(dict(case=case, impl=stream.strip_py(res), oracle=orc, meta=meta,
                        nontrivial=bool(nontrivial), op=kind, triggers=[]))
    return out


def run(ctx):
    n = 4000 if ctx.tier == "quick" else 30000
    stream.run_stream(ctx, "spectra", "harness.props.c12", "gen_cases", n, per_chunk=50,
                      canon_kw=dict(drop_zero=True))


def replay(ctx, payload):
    return stream.replay(ctx, payload, canon_kw=dict(drop_zero=True))
