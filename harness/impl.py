"""Run protocol programs on the real symmray (mirror of SymmModel/Driver/Ops.lean)."""

import numpy as np

from . import ser


def _scalar(s):
    re, im = ser.scalar_to_frac(s)
    if im == 0:
        return float(re)
    return complex(float(re), float(im))


def _charge(c, sym):
    return ser.dec_charge(c, sym)


def eval_step(op, ins, p, entry="method"):
    """returns a list of python-side results"""
    import autoray as ar
    import symmray as sr

    x = ins[0] if ins else None
    sym = ser.sym_name(x.symmetry) if hasattr(x, "symmetry") else None
    if op == "transpose":
        axes = p.get("axes")
        axes = None if axes is None else tuple(axes)
        kw = {}
        if "phase" in p:
            kw["phase"] = p["phase"]
        if axes is None and not kw and p.get("prop"):
            return [x.T]
        if entry == "function":
            return [sr.transpose(x, axes, **kw)]
        if entry == "autoray":
            return [ar.do("transpose", x, axes, **kw)]
        return [x.transpose(axes, **kw)]
    if op == "conj":
        kw = {}
        if "pp" in p:
            kw["phase_permutation"] = p["pp"]
        if "pd" in p:
            kw["phase_dual"] = p["pd"]
        if entry == "function":
            return [sr.conj(x, **kw)]
        if entry == "autoray":
            return [ar.do("conj", x, **kw)]
        return [x.conj(**kw)]
    if op == "dagger":
        kw = {}
        if "pd" in p:
            kw["phase_dual"] = p["pd"]
        if not kw and p.get("prop"):
            return [x.H]
        return [x.dagger(**kw)]
    if op == "squeeze":
        ax = p.get("axis")
        ax = None if ax is None else tuple(ax)
        if ax is not None and p.get("as_int") and len(ax) == 1:
            ax = int(ax[0])  # the same request with the axis given as a bare int
        if entry == "function":
            return [sr.squeeze(x, ax)]
        if entry == "autoray":
            return [ar.do("squeeze", x, ax)]
        return [x.squeeze(ax)]
    if op == "expand_dims":
        c = p.get("c")
        kw = {}
        if c is not None:
            kw["c"] = _charge(c, sym)
        if p.get("dual") is not None:
            kw["dual"] = p["dual"]
        if not kw and entry == "function":
            return [sr.expand_dims(x, p["axis"])]
        if not kw and entry == "autoray":
            return [ar.do("expand_dims", x, p["axis"])]
        return [x.expand_dims(p["axis"], **kw)]
    if op == "fuse":
        groups = [tuple(g) for g in p["groups"]]
        kw = {}
        if "expand_empty" in p:
            kw["expand_empty"] = p["expand_empty"]
        if not x.fermionic and "mode" in p:
            kw["mode"] = p["mode"]
        if not kw and entry == "function":
            return [sr.fuse(x, *groups)]
        if not kw and entry == "autoray":
            return [ar.do("fuse", x, *groups)]
        return [x.fuse(*groups, **kw)]
    if op == "fuse_core":
        groups = [tuple(g) for g in p["groups"]]
        return [x._fuse_core(*groups, mode=p.get("mode", "auto"))]
    if op == "unfuse":
        return [x.unfuse(p["axis"])]
    if op == "unfuse_all":
        return [x.unfuse_all()]
    if op == "reshape":
        ns = tuple(p["newshape"])
        if entry == "function":
            return [sr.reshape(x, ns)]
        if entry == "autoray":
            return [ar.do("reshape", x, ns)]
        return [x.reshape(ns)]
    if op == "tensordot":
        y = ins[1]
        axes = p["axes"]
        if not isinstance(axes, int):
            axes = (tuple(axes[0]), tuple(axes[1]))
        kw = {"preserve_array": True}
        if p.get("mode") is not None:
            kw["mode"] = p["mode"]
        if p.get("via_default") and p.get("mode") is not None and not x.fermionic:
            # the same mode selected through the default-mode context manager and mode=None
            kw["mode"] = None
            with sr.default_tensordot_mode(p["mode"]):
                return [sr.tensordot(x, y, axes, **kw)]
        if entry == "autoray":
            return [ar.do("tensordot", x, y, axes, **kw)]
        return [sr.tensordot(x, y, axes, **kw)]
    if op == "matmul":
        y = ins[1]
        return [x @ y]
    if op == "trace":
        if entry == "function":
            return [sr.trace(x)]
        if entry == "autoray":
            return [ar.do("trace", x)]
        return [x.trace()]
    if op == "einsum":
        eq = (
            "".join(chr(97 + q) for q in p["lhs"])
            + "->"
            + "".join(chr(97 + q) for q in p["rhs"])
        )
        if entry == "function":
            r = sr.einsum(eq, x)
            if isinstance(r, sr.AbelianArray):
                return [r]
        return [x.einsum(eq, preserve_array=True)]
    if op == "multiply_diagonal":
        v = ins[1]
        if entry == "function":
            return [sr.multiply_diagonal(x, v, p["axis"])]
        if entry == "autoray":
            return [ar.do("multiply_diagonal", x, v, p["axis"])]
        return [x.multiply_diagonal(v, p["axis"])]
    if op == "align_axes":
        y = ins[1]
        axes = (tuple(p["axes"][0]), tuple(p["axes"][1]))
        if entry == "function":
            return list(sr.align_axes(x, y, axes))
        if entry == "autoray":
            return list(ar.do("align_axes", x, y, axes))
        return list(x.align_axes(y, axes))
    if op == "add":
        return [x + ins[1]]
    if op == "sub":
        return [x - ins[1]]
    if op == "mul":
        return [x * ins[1]]
    if op == "smul":
        return [x * _scalar(p["scalar"])]
    if op == "sdiv":
        return [x / _scalar(p["scalar"])]
    if op == "neg":
        return [-x]
    if op == "sum":
        if entry == "function":
            return [sr.sum(x)]
        if entry == "autoray":
            return [ar.do("sum", x)]
        return [x.sum()]
    if op == "norm2":
        # the squared norm of Gaussian-integer data is an integer; undo the sqrt rounding
        v = float(x.norm()) ** 2
        return [round(v)] if abs(v - round(v)) <= 2e-5 * max(1.0, v) else [v]
    if op == "to_dense":
        return [x.to_dense()]
    if op == "phase_flip":
        return [x.phase_flip(*p["axs"])]
    if op == "phase_transpose":
        axes = p.get("axes")
        return [x.phase_transpose(None if axes is None else tuple(axes))]
    if op == "phase_sector":
        return [x.phase_sector(ser.dec_sector(p["sector"], sym))]
    if op == "phase_global":
        return [x.phase_global()]
    if op == "phase_sync":
        return [x.phase_sync()]
    if op == "sync_charges":
        return [x.sync_charges()]
    if op == "qr":
        return list(sr.linalg.qr(x, stabilized=bool(p.get("stabilized", False))))
    if op == "svd":
        return list(sr.linalg.svd(x))
    if op == "eigh":
        return list(sr.linalg.eigh(x))
    if op == "solve":
        return [sr.linalg.solve(x, ins[1])]
    if op == "svd_truncated":
        u, sv, vh = sr.linalg.svd_truncated(
            x, cutoff=p.get("cutoff", -1.0), cutoff_mode=p.get("cutoff_mode", 4),
            max_bond=p.get("max_bond", -1), absorb=p.get("absorb", 0))
        return [u, vh] if sv is None else [u, sv, vh]
    raise RuntimeError(f"impl: unknown op {op}")


def _wrap_scalar(a, b, r):
    """represent a scalar contraction result as the rank-0 array of the model"""
    cls = a.__class__
    kw = {} if a.static_symmetry else {"symmetry": a.symmetry}
    charge = a.symmetry.combine(a.charge, b.charge)
    blocks = {(): np.asarray(r)} if not (isinstance(r, float) and r == 0.0) else {}
    if a.fermionic:
        out = cls(indices=(), charge=charge, blocks=blocks, oddpos=[], **kw)
    else:
        out = cls(indices=(), charge=charge, blocks=blocks, **kw)
    return out


FLOAT_OPS = {"qr", "svd", "eigh", "solve", "svd_truncated"}


def run_prog(env, steps, entry="method"):
    """env: name -> python object.  Returns (results, env) where results mirror the driver's
    per-step answers: {"ok": [VAL]} | {"raise": kind} | {"skipped": True}."""
    env = dict(env)
    out = []
    dead = False
    for st in steps:
        if dead:
            out.append({"skipped": True})
            continue
        try:
            ins = [env[n] for n in st["in"]]
            res = eval_step(st["op"], ins, st.get("params", {}), entry=entry)
        except RecursionError:
            out.append({"raise": "other"})
            dead = True
            continue
        except Exception as e:  # noqa
            out.append({"raise": ser.exc_kind(e), "msg": f"{type(e).__name__}: {e}"[:200]})
            dead = True
            continue
        for n, v in zip(st["out"], res):
            env[n] = v
        # results of LAPACK kernels (and everything computed from them) are floats: structure only
        floaty = st["op"] in FLOAT_OPS or any(n in env.get("__float__", ()) for n in st["in"])
        if floaty:
            env["__float__"] = set(env.get("__float__", ())) | set(st["out"])
        out.append({"ok": [ser.enc_val(v, data=not floaty) for v in res], "_py": res})
    return out, env
