import importlib
import sys

from . import core


def main():
    if len(sys.argv) < 2:
        print("usage: check Cxx [--tier quick|thorough] [--seed N]")
        return 2
    pid = sys.argv[1]
    try:
        mod = importlib.import_module(f"harness.props.{pid.lower()}")
    except ModuleNotFoundError as e:
        print(f"no check for {pid}: {e}")
        return 2
    try:
        return core.main(mod, sys.argv[2:])
    except Exception:  # noqa
        import traceback

        traceback.print_exc()
        return 2


if __name__ == "__main__":
    sys.exit(main())
