"""Framework shared by all property checks: Lean build + axiom audit, driver invocation,
known findings, verdict logic and evidence writing.  See DESIGN.md §2.5 / §9."""

import hashlib
import json
import multiprocessing as mp
import os
import random
import re
import subprocess
import sys
import tempfile
import time
import traceback
from pathlib import Path

VERIF = Path(__file__).resolve().parent.parent
LEAN_DIR = VERIF / "lean"
DRV = LEAN_DIR / ".lake" / "build" / "bin" / "drv"
REPO = Path(os.environ.get("SYMMRAY_REPO", "/repo"))
NPROC = int(os.environ.get("VERIF_NPROC", "16"))
ALLOWED_AXIOMS = {"propext", "Classical.choice", "Quot.sound"}
FORBIDDEN = re.compile(
    r"\bsorry\b|\badmit\b|^\s*axiom\s|native_decide|bv_decide|implemented_by|^\s*unsafe\s|maxHeartbeats\s+0\b"
)

TRUSTED_BASE = [
    "Lean 4.33.0 kernel; Mathlib v4.33.0 modules imported by the proof files",
    "axioms used by the property theorems: subset of {propext, Classical.choice, Quot.sound} (audited by #print axioms on every run); no native_decide, no bv_decide, no own axioms",
    "the hand-written model SymmModel is tied to /repo only by the correspondence harness (generators, serialiser, canonicaliser, diff) run on every check",
    "numpy kernels (transpose, reshape, concatenate, zeros, slicing, tensordot, einsum, elementwise arithmetic) are modelled by their documented meaning and are exact on the small integer / dyadic data used",
    "LAPACK per-block factorisations are a stated contract (C11-C13), validated numerically, not proved",
]


# ---------------------------------------------------------------------------- Lean side


class LeanSide:
    def __init__(self):
        self.build_ok = None
        self.build_log = ""
        self.audit = {}
        self.audit_ok = None
        self.audit_log = ""

    def build(self, timeout=1500):
        t0 = time.time()
        try:
            p = subprocess.run(
                ["lake", "build"],
                cwd=LEAN_DIR,
                capture_output=True,
                text=True,
                timeout=timeout,
            )
            self.build_ok = p.returncode == 0 and DRV.exists()
            self.build_log = (p.stdout + p.stderr)[-4000:]
        except subprocess.TimeoutExpired:
            self.build_ok = False
            self.build_log = "lake build timed out"
        self.build_s = time.time() - t0
        return self.build_ok

    def grep_forbidden(self, files):
        hits = []
        for f in files:
            try:
                txt = Path(f).read_text()
            except OSError:
                continue
            # strip comments (block and line) before searching
            txt2 = re.sub(r"/-.*?-/", lambda m: "\n" * m.group(0).count("\n"), txt, flags=re.S)
            for n, line in enumerate(txt2.splitlines(), 1):
                line = line.split("--")[0]
                if FORBIDDEN.search(line):
                    hits.append(f"{f}:{n}: {line.strip()}")
        return hits

    def run_audit(self, module, theorems, timeout=900):
        """`#print axioms` on every property theorem; returns dict name -> list of axioms
        (None when the theorem does not exist / does not check)."""
        if not theorems:
            self.audit_ok = True
            return {}
        adir = LEAN_DIR / ".lake" / "audit"
        adir.mkdir(parents=True, exist_ok=True)
        f = adir / f"Audit_{module.replace('.', '_')}.lean"
        f.write_text(
            f"import {module}\n" + "".join(f"#print axioms {t}\n" for t in theorems)
        )
        try:
            p = subprocess.run(
                ["lake", "env", "lean", str(f)],
                cwd=LEAN_DIR,
                capture_output=True,
                text=True,
                timeout=timeout,
            )
            out = p.stdout + p.stderr
        except subprocess.TimeoutExpired:
            out = "audit timed out"
        self.audit_log = out[-4000:]
        res = {t: None for t in theorems}
        flat = out.replace("\n", " ")
        for t in theorems:  # literal search: theorem names may themselves contain apostrophes
            k = flat.find(f"'{t}' depends on axioms: [")
            if k >= 0:
                body = flat[k + len(f"'{t}' depends on axioms: ["):]
                body = body[: body.find("]")]
                res[t] = [a.strip() for a in body.split(",") if a.strip()]
            elif f"'{t}' does not depend on any axioms" in flat:
                res[t] = []
        # names may be printed without the leading namespace opened; match by suffix
        for t in theorems:
            if res[t] is None:
                for k, v in list(res.items()):
                    if v is not None and (k.endswith("." + t) or t.endswith("." + k)):
                        res[t] = v
        self.audit = res
        self.audit_ok = all(
            v is not None and set(v) <= ALLOWED_AXIOMS for v in res.values()
        )
        return res


def run_driver(cases, nproc=None, timeout=3000):
    """Pipe protocol cases (list of dicts with unique 'id') through the compiled Lean driver,
    in parallel chunks.  Returns dict id -> response, or raises RuntimeError."""
    if not cases:
        return {}
    nproc = nproc or NPROC
    nchunks = max(1, min(nproc, len(cases) // 8 + 1))
    chunks = [cases[i::nchunks] for i in range(nchunks)]
    procs = []
    tmpd = tempfile.mkdtemp(prefix="symmverif_")
    try:
        for k, ch in enumerate(chunks):
            fin = Path(tmpd) / f"in{k}.jsonl"
            with open(fin, "w") as fh:
                for c in ch:
                    fh.write(json.dumps(c, separators=(",", ":")) + "\n")
            fout = open(Path(tmpd) / f"out{k}.jsonl", "w")
            procs.append(
                (subprocess.Popen([str(DRV)], stdin=open(fin), stdout=fout, stderr=subprocess.PIPE), fout, k)
            )
        out = {}
        for p, fout, k in procs:
            try:
                _, err = p.communicate(timeout=timeout)
            except subprocess.TimeoutExpired:
                p.kill()
                raise RuntimeError("driver timed out")
            fout.close()
            if p.returncode != 0:
                raise RuntimeError(f"driver exited {p.returncode}: {err.decode()[-500:]}")
            with open(Path(tmpd) / f"out{k}.jsonl") as fh:
                for line in fh:
                    r = json.loads(line)
                    out[r.get("id")] = r
        if len(out) != len(cases):
            raise RuntimeError(f"driver answered {len(out)} of {len(cases)} cases")
        return out
    finally:
        for p, fout, k in procs:
            if p.poll() is None:
                p.kill()
        import shutil

        shutil.rmtree(tmpd, ignore_errors=True)


# ---------------------------------------------------------------------------- context


def _pool_init():
    sys.path.insert(0, str(REPO))


def _worker(args):
    fn_mod, fn_name, a = args
    import importlib

    mod = importlib.import_module(fn_mod)
    return getattr(mod, fn_name)(*a)


class Ctx:
    def __init__(self, prop, tier, seed):
        self.prop = prop
        self.tier = tier
        self.seed = seed
        self.rng = random.Random(seed)
        self.lean = LeanSide()
        self.driver_ok = False
        self.stats = {}
        self.samples = []
        self.nontrivial = set()
        self.evaluations = 0
        self.violations = []  # (what, case, triggers, detail)
        self.broken = []  # (name, detail): correspondence / proof components that no longer check
        self.known_hits = {}
        self.notes = []
        self.monitors = 0
        self.disagreements_checked = 0
        self.exhaustive = False
        self.t0 = time.time()
        kf = VERIF / "known_findings.json"
        self.known = json.loads(kf.read_text()) if kf.exists() else []

    # -- counting
    def stat(self, key, n=1):
        self.stats[key] = self.stats.get(key, 0) + n

    def sample(self, obj, limit=4):
        if len(self.samples) < limit:
            self.samples.append(obj)

    def mark_nontrivial(self, key):
        self.nontrivial.add(
            hashlib.sha1(repr(key).encode()).hexdigest()[:16]
            if not isinstance(key, str)
            else key
        )

    # -- model
    def model(self, cases):
        """Run protocol cases on the Lean driver; None if the driver is unavailable."""
        if not self.driver_ok:
            return None
        try:
            return run_driver(cases)
        except Exception as e:  # noqa
            self.broken.append(("lean-driver", f"{type(e).__name__}: {e}"))
            self.driver_ok = False
            return None

    def pmap(self, mod, fn, arglist, nproc=None):
        """map a module-level function over argument tuples in worker processes"""
        nproc = min(nproc or NPROC, max(1, len(arglist)))
        if nproc == 1:
            _pool_init()
            return [_worker((mod, fn, a)) for a in arglist]
        with mp.get_context("fork").Pool(nproc, initializer=_pool_init) as pool:
            return pool.map(_worker, [(mod, fn, a) for a in arglist], chunksize=1)

    # -- verdicts
    def violation(self, what, case, triggers=(), detail=None, op=None):
        """A concrete input on which the implementation violates the property (confirmed by
        the property's direct oracle on the real code)."""
        triggers = set(triggers)
        for k in self.known:
            if k.get("property") != self.prop or k.get("status") != "known":
                continue
            m = k.get("match", {})
            if op is not None and m.get("op") and op not in m["op"]:
                continue
            if m.get("op") and op is None:
                continue
            if not set(m.get("requires", [])) <= triggers:
                continue
            self.known_hits.setdefault(k["id"], k)
            self.stat("known_finding_hits")
            return False
        self.violations.append(
            dict(what=what, op=op, triggers=sorted(triggers), case=case, detail=detail)
        )
        return True

    def correspondence_broken(self, name, detail):
        self.broken.append((name, detail))


def write_replay(prop, seed, n, payload):
    d = VERIF / "replays"
    d.mkdir(exist_ok=True)
    p = d / f"{prop}-{seed}-{n}.json"
    p.write_text(json.dumps(payload, indent=1, default=str))
    return p


def fingerprint(files_funcs):
    """normalised ast hash per anchored function (informational)"""
    import ast

    out = {}
    for fname, funcs in files_funcs.items():
        try:
            tree = ast.parse((REPO / "symmray" / fname).read_text())
        except Exception as e:  # noqa
            out[fname] = f"unparsable: {e}"
            continue
        for node in ast.walk(tree):
            if isinstance(node, (ast.FunctionDef, ast.ClassDef)) and node.name in funcs:
                out[f"{fname}:{node.name}"] = hashlib.sha1(
                    ast.dump(node, annotate_fields=False).encode()
                ).hexdigest()[:12]
    return out


def main(prop_mod, argv=None):
    import argparse

    ap = argparse.ArgumentParser()
    ap.add_argument("--tier", default=os.environ.get("VERIF_TIER", "quick"))
    ap.add_argument("--seed", type=int, default=int(os.environ.get("VERIF_SEED", "0")))
    ap.add_argument("--replay", default=None)
    ap.add_argument("--no-build", action="store_true")
    args = ap.parse_args(argv)
    tier = args.tier if args.tier in ("quick", "thorough") else "quick"

    prop = prop_mod.ID
    ctx = Ctx(prop, tier, args.seed)
    sys.path.insert(0, str(REPO))
    os.environ.pop("SYMMRAY_DEBUG", None)

    if args.replay:
        return prop_mod.replay(ctx, json.loads(Path(args.replay).read_text()))

    for old in (VERIF / "replays").glob(f"{prop}-{args.seed}-*.json"):
        old.unlink()

    # 1. Lean: build, forbidden-token grep, axiom audit
    lean = ctx.lean
    if args.no_build and DRV.exists():
        lean.build_ok = True
    else:
        lean.build()
    theorems = list(getattr(prop_mod, "THEOREMS", []))
    module = getattr(prop_mod, "PROPS_MODULE", None)
    proof_files = [LEAN_DIR / (m.replace(".", "/") + ".lean") for m in getattr(prop_mod, "LEAN_FILES", [])]
    forb = lean.grep_forbidden(proof_files) if proof_files else []
    if lean.build_ok:
        ctx.driver_ok = True
        if module:
            lean.run_audit(module, theorems)
    else:
        ctx.broken.append(("lake-build", lean.build_log[-1500:]))
    if forb:
        ctx.broken.append(("forbidden-tokens", "; ".join(forb[:10])))
    if lean.build_ok and module and not lean.audit_ok:
        bad = {t: a for t, a in lean.audit.items() if a is None or not set(a) <= ALLOWED_AXIOMS}
        ctx.broken.append(("axiom-audit", json.dumps(bad) + " :: " + lean.audit_log[-800:]))

    # 2. correspondence + direct oracles
    try:
        prop_mod.run(ctx)
    except Exception:
        tb = traceback.format_exc()
        print(tb, file=sys.stderr)
        if "/symmray/" in tb and "harness/" in tb:
            # the implementation raised from inside a call the harness makes on inputs that are
            # accepted on the reference tree: the correspondence can no longer be run
            ctx.broken.append(("implementation-raised-unexpectedly", tb[-3000:]))
        else:  # infrastructure failure inside the harness itself
            print(f"HARNESS-ERROR property={prop}: {tb.splitlines()[-1]}")
            _write_evidence(ctx, prop_mod, theorems, infra_error=tb[-2000:])
            return 2

    # 3. verdict
    for k in ctx.known_hits.values():
        print(f"KNOWN-FINDING: property={prop} {k['what']}")
    code = 0
    n = 0
    for v in ctx.violations[:5]:
        path = write_replay(prop, args.seed, n, dict(kind="violation", property=prop, tier=tier, seed=args.seed, **v))
        print(f"VIOLATION property={prop} replay={path}")
        n += 1
        code = 1
    if not ctx.violations and ctx.broken:
        path = write_replay(
            prop, args.seed, n,
            dict(kind="unchecked", property=prop, tier=tier, seed=args.seed,
                 broken=[dict(name=a, detail=b) for a, b in ctx.broken],
                 note="a proof obligation or the model/implementation correspondence no longer checks; "
                      "the direct oracles found no failing input on the explored cases"),
        )
        print(f"VIOLATION property={prop} replay={path} no-failing-input-found")
        code = 1
    _write_evidence(ctx, prop_mod, theorems)
    return code


def _write_evidence(ctx, prop_mod, theorems, infra_error=None):
    lean = ctx.lean
    audit = lean.audit or {}
    discharged = sum(1 for t in theorems if audit.get(t) is not None and set(audit[t]) <= ALLOWED_AXIOMS)
    level = getattr(prop_mod, "LEVEL", "proof")
    cov = dict(
        evaluations=int(ctx.evaluations),
        distinct_nontrivial=len(ctx.nontrivial),
        rule=getattr(prop_mod, "RULE", ""),
        samples=ctx.samples or [{"note": "no sample recorded"}],
        obligations=len(theorems),
        discharged=discharged,
        checker_cmd="cd /verif/lean && lake build && lake env lean .lake/audit/Audit_<module>.lean  (#print axioms on each obligation)",
        trusted_base=TRUSTED_BASE + list(getattr(prop_mod, "TRUSTED_EXTRA", [])),
        theorems={t: audit.get(t) for t in theorems},
        planned=list(getattr(prop_mod, "PLANNED", [])),
        programs=int(ctx.evaluations),
        disagreements_checked=int(ctx.disagreements_checked),
        monitors_evaluated=int(ctx.monitors),
        distribution=ctx.stats,
        exhaustive=bool(ctx.exhaustive),
        lean_build_ok=bool(lean.build_ok),
        axiom_audit_ok=bool(lean.audit_ok),
        known_findings_hit=sorted(ctx.known_hits),
        broken=[a for a, _ in ctx.broken],
        notes=ctx.notes,
        source_fingerprint=fingerprint(getattr(prop_mod, "ANCHORS", {})),
    )
    if infra_error:
        cov["infrastructure_error"] = infra_error
    ev = dict(
        property_id=ctx.prop,
        tier=ctx.tier,
        seed=ctx.seed,
        level=level,
        coverage=cov,
        assumptions=list(getattr(prop_mod, "ASSUMPTIONS", [])),
        wall_s=round(time.time() - ctx.t0, 2),
        violations=len(ctx.violations) + (1 if (ctx.broken and not ctx.violations) else 0),
    )
    (VERIF / "evidence").mkdir(exist_ok=True)
    (VERIF / "evidence" / f"{ctx.prop}.json").write_text(json.dumps(ev, indent=1, default=str))
